//! Minimal JSON value, writer and parser (std only; no crates can be fetched).

use std::collections::BTreeMap;
use std::fmt::Write;

#[derive(Clone, Debug, PartialEq)]
pub enum Json {
    Null,
    Bool(bool),
    Int(i128),
    Float(f64),
    Str(String),
    Arr(Vec<Json>),
    Obj(Vec<(String, Json)>),
}

impl From<u64> for Json {
    fn from(v: u64) -> Json {
        Json::Int(v as i128)
    }
}
impl From<usize> for Json {
    fn from(v: usize) -> Json {
        Json::Int(v as i128)
    }
}
impl From<i64> for Json {
    fn from(v: i64) -> Json {
        Json::Int(v as i128)
    }
}
impl From<u32> for Json {
    fn from(v: u32) -> Json {
        Json::Int(v as i128)
    }
}
impl From<i32> for Json {
    fn from(v: i32) -> Json {
        Json::Int(v as i128)
    }
}
impl From<bool> for Json {
    fn from(v: bool) -> Json {
        Json::Bool(v)
    }
}
impl From<f64> for Json {
    fn from(v: f64) -> Json {
        Json::Float(v)
    }
}
impl From<&str> for Json {
    fn from(v: &str) -> Json {
        Json::Str(v.to_string())
    }
}
impl From<String> for Json {
    fn from(v: String) -> Json {
        Json::Str(v)
    }
}
impl From<&String> for Json {
    fn from(v: &String) -> Json {
        Json::Str(v.clone())
    }
}
impl<T: Into<Json> + Clone> From<&[T]> for Json {
    fn from(v: &[T]) -> Json {
        Json::Arr(v.iter().cloned().map(Into::into).collect())
    }
}
impl<T: Into<Json>> From<Vec<T>> for Json {
    fn from(v: Vec<T>) -> Json {
        Json::Arr(v.into_iter().map(Into::into).collect())
    }
}
impl<T: Into<Json> + Clone> From<&Vec<T>> for Json {
    fn from(v: &Vec<T>) -> Json {
        Json::Arr(v.iter().cloned().map(Into::into).collect())
    }
}
impl<T: Into<Json>> From<Option<T>> for Json {
    fn from(v: Option<T>) -> Json {
        match v {
            Some(x) => x.into(),
            None => Json::Null,
        }
    }
}

/// Build an object from key/value pairs.
pub fn obj(pairs: Vec<(&str, Json)>) -> Json {
    Json::Obj(pairs.into_iter().map(|(k, v)| (k.to_string(), v)).collect())
}

#[macro_export]
macro_rules! jobj {
    ($($k:expr => $v:expr),* $(,)?) => {
        $crate::json::Json::Obj(vec![$(($k.to_string(), $crate::json::Json::from($v))),*])
    };
}

fn escape(s: &str, out: &mut String) {
    out.push('"');
    for c in s.chars() {
        match c {
            '"' => out.push_str("\\\""),
            '\\' => out.push_str("\\\\"),
            '\n' => out.push_str("\\n"),
            '\r' => out.push_str("\\r"),
            '\t' => out.push_str("\\t"),
            c if (c as u32) < 0x20 => {
                let _ = write!(out, "\\u{:04x}", c as u32);
            }
            c => out.push(c),
        }
    }
    out.push('"');
}

impl Json {
    pub fn write(&self, out: &mut String) {
        match self {
            Json::Null => out.push_str("null"),
            Json::Bool(b) => out.push_str(if *b { "true" } else { "false" }),
            Json::Int(i) => {
                let _ = write!(out, "{}", i);
            }
            Json::Float(f) => {
                if f.is_finite() {
                    let _ = write!(out, "{:e}", f);
                } else {
                    escape(&format!("{}", f), out);
                }
            }
            Json::Str(s) => escape(s, out),
            Json::Arr(a) => {
                out.push('[');
                for (i, v) in a.iter().enumerate() {
                    if i > 0 {
                        out.push(',');
                    }
                    v.write(out);
                }
                out.push(']');
            }
            Json::Obj(o) => {
                out.push('{');
                for (i, (k, v)) in o.iter().enumerate() {
                    if i > 0 {
                        out.push(',');
                    }
                    escape(k, out);
                    out.push(':');
                    v.write(out);
                }
                out.push('}');
            }
        }
    }

    pub fn to_string(&self) -> String {
        let mut s = String::new();
        self.write(&mut s);
        s
    }

    pub fn pretty(&self) -> String {
        let mut s = String::new();
        self.write_pretty(&mut s, 0);
        s.push('\n');
        s
    }

    fn write_pretty(&self, out: &mut String, ind: usize) {
        match self {
            Json::Obj(o) if !o.is_empty() => {
                out.push_str("{\n");
                for (i, (k, v)) in o.iter().enumerate() {
                    for _ in 0..ind + 1 {
                        out.push(' ');
                    }
                    escape(k, out);
                    out.push_str(": ");
                    // keep nested values compact below depth 2 for readability
                    if ind >= 1 {
                        v.write(out);
                    } else {
                        v.write_pretty(out, ind + 1);
                    }
                    if i + 1 < o.len() {
                        out.push(',');
                    }
                    out.push('\n');
                }
                for _ in 0..ind {
                    out.push(' ');
                }
                out.push('}');
            }
            _ => self.write(out),
        }
    }

    pub fn get(&self, key: &str) -> Option<&Json> {
        match self {
            Json::Obj(o) => o.iter().find(|(k, _)| k == key).map(|(_, v)| v),
            _ => None,
        }
    }
    pub fn as_str(&self) -> Option<&str> {
        match self {
            Json::Str(s) => Some(s),
            _ => None,
        }
    }
    pub fn as_u64(&self) -> Option<u64> {
        match self {
            Json::Int(i) if *i >= 0 && *i <= u64::MAX as i128 => Some(*i as u64),
            _ => None,
        }
    }
    pub fn as_arr(&self) -> Option<&Vec<Json>> {
        match self {
            Json::Arr(a) => Some(a),
            _ => None,
        }
    }
}

pub fn counters_to_json(m: &BTreeMap<String, u64>) -> Json {
    Json::Obj(m.iter().map(|(k, v)| (k.clone(), Json::from(*v))).collect())
}

// ---------------------------------------------------------------- parser

pub fn parse(text: &str) -> Result<Json, String> {
    let b = text.as_bytes();
    let mut p = 0usize;
    let v = parse_value(b, &mut p)?;
    skip_ws(b, &mut p);
    if p != b.len() {
        return Err(format!("trailing data at byte {}", p));
    }
    Ok(v)
}

fn skip_ws(b: &[u8], p: &mut usize) {
    while *p < b.len() && (b[*p] as char).is_ascii_whitespace() {
        *p += 1;
    }
}

fn parse_value(b: &[u8], p: &mut usize) -> Result<Json, String> {
    skip_ws(b, p);
    if *p >= b.len() {
        return Err("unexpected end".into());
    }
    match b[*p] {
        b'{' => {
            *p += 1;
            let mut o = Vec::new();
            skip_ws(b, p);
            if *p < b.len() && b[*p] == b'}' {
                *p += 1;
                return Ok(Json::Obj(o));
            }
            loop {
                skip_ws(b, p);
                let k = match parse_value(b, p)? {
                    Json::Str(s) => s,
                    _ => return Err("object key must be a string".into()),
                };
                skip_ws(b, p);
                if *p >= b.len() || b[*p] != b':' {
                    return Err(format!("expected ':' at byte {}", p));
                }
                *p += 1;
                let v = parse_value(b, p)?;
                o.push((k, v));
                skip_ws(b, p);
                if *p < b.len() && b[*p] == b',' {
                    *p += 1;
                    continue;
                }
                if *p < b.len() && b[*p] == b'}' {
                    *p += 1;
                    return Ok(Json::Obj(o));
                }
                return Err(format!("expected ',' or '}}' at byte {}", p));
            }
        }
        b'[' => {
            *p += 1;
            let mut a = Vec::new();
            skip_ws(b, p);
            if *p < b.len() && b[*p] == b']' {
                *p += 1;
                return Ok(Json::Arr(a));
            }
            loop {
                a.push(parse_value(b, p)?);
                skip_ws(b, p);
                if *p < b.len() && b[*p] == b',' {
                    *p += 1;
                    continue;
                }
                if *p < b.len() && b[*p] == b']' {
                    *p += 1;
                    return Ok(Json::Arr(a));
                }
                return Err(format!("expected ',' or ']' at byte {}", p));
            }
        }
        b'"' => {
            *p += 1;
            let mut s = String::new();
            loop {
                if *p >= b.len() {
                    return Err("unterminated string".into());
                }
                let c = b[*p];
                *p += 1;
                match c {
                    b'"' => return Ok(Json::Str(s)),
                    b'\\' => {
                        if *p >= b.len() {
                            return Err("bad escape".into());
                        }
                        let e = b[*p];
                        *p += 1;
                        match e {
                            b'n' => s.push('\n'),
                            b't' => s.push('\t'),
                            b'r' => s.push('\r'),
                            b'b' => s.push('\u{8}'),
                            b'f' => s.push('\u{c}'),
                            b'/' => s.push('/'),
                            b'\\' => s.push('\\'),
                            b'"' => s.push('"'),
                            b'u' => {
                                if *p + 4 > b.len() {
                                    return Err("bad \\u escape".into());
                                }
                                let h = std::str::from_utf8(&b[*p..*p + 4]).map_err(|e| e.to_string())?;
                                let cp = u32::from_str_radix(h, 16).map_err(|e| e.to_string())?;
                                s.push(char::from_u32(cp).unwrap_or('?'));
                                *p += 4;
                            }
                            _ => return Err("bad escape".into()),
                        }
                    }
                    _ => {
                        // copy raw UTF-8 bytes
                        let start = *p - 1;
                        let mut end = *p;
                        while end < b.len() && b[end] != b'"' && b[end] != b'\\' {
                            end += 1;
                        }
                        s.push_str(std::str::from_utf8(&b[start..end]).map_err(|e| e.to_string())?);
                        *p = end;
                    }
                }
            }
        }
        b't' if b[*p..].starts_with(b"true") => {
            *p += 4;
            Ok(Json::Bool(true))
        }
        b'f' if b[*p..].starts_with(b"false") => {
            *p += 5;
            Ok(Json::Bool(false))
        }
        b'n' if b[*p..].starts_with(b"null") => {
            *p += 4;
            Ok(Json::Null)
        }
        _ => {
            let start = *p;
            while *p < b.len() && matches!(b[*p], b'0'..=b'9' | b'-' | b'+' | b'.' | b'e' | b'E') {
                *p += 1;
            }
            let t = std::str::from_utf8(&b[start..*p]).map_err(|e| e.to_string())?;
            if t.is_empty() {
                return Err(format!("unexpected character at byte {}", start));
            }
            if let Ok(i) = t.parse::<i128>() {
                Ok(Json::Int(i))
            } else {
                t.parse::<f64>().map(Json::Float).map_err(|e| e.to_string())
            }
        }
    }
}
