//! C12 — derived arrival curves dominate their source and are exact on the covered prefix.

use response_time_analysis::arrival::{self, ArrivalBound};
use response_time_analysis::time::{Duration, Offset};

use crate::framework::{guard, CaseReport, Monitor, Tier};
use crate::jobj;
use crate::json::Json;
use crate::model::arr::{Arr, ArrGen};
use crate::monitors::c10::table;
use crate::rng::Rng;

pub struct C12;

fn gen_trace(rng: &mut Rng) -> Vec<u64> {
    let n = rng.usize(2, 30);
    let mut t = rng.range(0, 20);
    let mut v = vec![];
    let scale = *rng.pick(&[3u64, 10, 50]);
    for _ in 0..n {
        v.push(t);
        t += match rng.range(0, 5) {
            0 => 0, // simultaneous events
            1 => rng.range(0, 2),
            2 => rng.range(scale * 3, scale * 10), // long gap
            _ => rng.range(1, scale),
        };
    }
    v
}

/// If derived < source at `x`, is the source itself not sub-additive there
/// (so that repetition-based extrapolation cannot be expected to dominate)?
fn source_not_subadditive(src: &[u64], x: usize) -> bool {
    (1..x).any(|a| src[a] + src[x - a] < src[x])
}

impl Monitor for C12 {
    fn id(&self) -> &'static str {
        "C12"
    }
    fn rule(&self) -> String {
        "case = (a) one random event trace (2-30 events, simultaneous events, bursts, long gaps) with every prefix_jobs in 2..=len+1: Curve::from_trace must bound the number of trace events in EVERY window (all event pairs), far beyond the recorded prefix; (b) one source model (Periodic, Sporadic with jitter, bursty curves, extrapolating curves, propagated / summed models) converted by Curve::from_arrival_bound, from_arrival_bound_until, ArrivalCurvePrefix::from_arrival_bound_until, From<Periodic>, From<Sporadic>, From<&ArrivalCurvePrefix>: derived(delta) >= source(delta) for all delta up to 20x the covered prefix (a miss is first triaged against sub-additivity of the source) and derived(delta) = source(delta) for delta strictly inside the covered prefix; (c) delta_min_iter of the source is compared with the dual computed by scanning number_arrivals: (0,0),(1,0), then for n = 2,3,... the least x with f(x+1) >= n. Non-trivial = trace with a burst or a gap pattern that is not periodic, resp. conversion of a jittered / bursty / composite source; distinct = distinct trace or source.".to_string()
    }
    fn assumptions(&self) -> Vec<String> {
        vec![
            "traces have >= 2 events and prefix_jobs >= 2 (the constructor documents that the delta-min vector must not be empty)".to_string(),
            "equality AT the boundary of the covered prefix is not demanded (only strictly inside)".to_string(),
            "horizons are >= 1".to_string(),
        ]
    }
    fn cases(&self, tier: Tier) -> u64 {
        match tier {
            Tier::Quick => 100_000,
            Tier::Thorough => 2_000_000,
        }
    }
    fn required_counters(&self) -> Vec<&'static str> {
        vec!["trace_windows_checked", "domination_points_checked", "exactness_points_checked", "delta_min_items_compared"]
    }

    fn unguarded_library_failure(&self, c: &crate::framework::Caught, rep: &mut CaseReport) -> bool {
        // this property's objects must answer every query: a library panic / runaway loop that surfaces
        // outside a guarded call (e.g. while the monitor inspects the shared cache) is a violation too
        rep.violation(
            format!("C12 kind=library-{}-outside-a-guarded-call class={}", c.kind, c.class()),
            crate::jobj! {"caught" => c.to_json(), "case" => rep.sample.clone()},
        );
        true
    }
    fn run_case(&self, _index: u64, seed: u64, _tier: Tier, rep: &mut CaseReport) {
        let mut rng = Rng::new(seed);
        // ---------------------------------------------------------------- (a) traces
        let trace = gen_trace(&mut rng);
        rep.sample = Some(jobj! {"trace" => &trace});
        let span = trace[trace.len() - 1] - trace[0] + 1;
        for prefix_jobs in 2..=(trace.len() + 1) {
            // some `prefix_jobs` consecutive events are simultaneous: the inferred prefix ends with
            // distance 0 and denotes an unbounded process (no finite bound exists) -- outside the domain
            if crate::model::arr::dmin_of_trace(&trace, prefix_jobs).last() == Some(&0) {
                rep.count("skipped_unbounded_inferred_prefix (last distance 0)", 1);
                continue;
            }
            let r = guard(|| {
                // (every other prefix length: the trace arrives through an iterator without an exact size hint)
                let c = if prefix_jobs % 2 == 0 {
                    arrival::Curve::from_trace(trace.iter().filter(|_| true).map(|t| Offset::from(*t)), prefix_jobs)
                } else {
                    arrival::Curve::from_trace(trace.iter().map(|t| Offset::from(*t)), prefix_jobs)
                };
                table(&c, span + 1)
            });
            match r {
                Err(c) => {
                    rep.violation(format!("C12 conv=from_trace kind={} class={}", c.kind, c.class()), jobj! {"trace"=>&trace,"prefix_jobs"=>prefix_jobs,"caught"=>c.to_json()});
                    break;
                }
                Ok(f) => {
                    'pairs: for i in 0..trace.len() {
                        for j in i..trace.len() {
                            let w = trace[j] - trace[i] + 1;
                            rep.count("trace_windows_checked", 1);
                            if ((j - i + 1) as u64) > f[w as usize] {
                                rep.violation(
                                    "C12 conv=from_trace kind=trace-window-holds-more-events-than-curve".to_string(),
                                    jobj! {"trace"=>&trace,"prefix_jobs"=>prefix_jobs,"window_start"=>trace[i],"window_length"=>w,"events"=>j-i+1,"number_arrivals"=>f[w as usize]},
                                );
                                break 'pairs;
                            }
                        }
                    }
                }
            }
        }
        let gaps: Vec<u64> = trace.windows(2).map(|w| w[1] - w[0]).collect();
        if gaps.iter().any(|g| *g == 0) || gaps.windows(2).any(|w| w[0] != w[1]) {
            let mut w = vec![41];
            w.extend(trace.iter().copied());
            rep.nontrivial_key(&w);
        }

        // ---------------------------------------------------------------- (b) conversions
        let g = ArrGen { scale: *rng.pick(&[3u64, 10, 40]), allow_never: false, allow_prefix: false, allow_composite: true, allow_curve: true, max_jitter_factor: 3 };
        // one source in ten is an ApproximatedPoisson model (the only model with the trait-default steps_iter;
        // low rates give sources with number_arrivals(1) = 0)
        let poisson: Option<(f64, f64)> = if rng.chance(1, 10) { Some((10f64.powf(-3.5 + 2.3 * rng.f64()), *rng.pick(&[0.1f64, 0.01, 0.001]))) } else { None };
        let src = g.any(&mut rng, 1);
        // one source in 25: a sporadic model whose jitter exceeds 50 periods, converted with From<Sporadic>
        // (the conversion sizes its unrolling by the jitter there)
        let huge_jitter = poisson.is_none() && rng.chance(1, 25);
        let src = if huge_jitter {
            let t = rng.range(1, 4);
            Arr::Sporadic { t, j: t * rng.range(51, 120) }
        } else {
            src
        };
        if src.components().is_empty() {
            return;
        }
        let sj = match poisson {
            Some((r, e)) => jobj! {"ApproximatedPoisson" => vec![r, e]},
            None => src.to_json(),
        };
        let build_src = || -> Box<dyn ArrivalBound> {
            match poisson {
                Some((r, e)) => Box::new(arrival::ApproximatedPoisson::new(r, e)),
                None => src.build(),
            }
        };
        let conv = if huge_jitter { 3 } else { rng.range(0, 5) };
        if huge_jitter {
            rep.count("sporadic_sources_with_jitter_above_50_periods", 1);
        }
        let njobs = rng.usize(1, 12);
        let hor = rng.range(1, 8 * g.scale);
        type Built = (String, Box<dyn ArrivalBound>, u64, Json);
        let built: Result<Option<Built>, _> = guard(|| -> Option<Built> {
            let s = build_src();
            match conv {
                0 => {
                    let c = arrival::Curve::from_arrival_bound(&s, njobs);
                    // covered prefix = largest recorded min distance
                    let cov = u64::from(c.min_distance(usize::MAX / 2));
                    Some(("Curve::from_arrival_bound".into(), Box::new(c), cov, jobj! {"up_to_njobs"=>njobs}))
                }
                1 => {
                    let c = arrival::Curve::from_arrival_bound_until(&s, Duration::from(hor));
                    let cov = u64::from(c.min_distance(usize::MAX / 2));
                    Some(("Curve::from_arrival_bound_until".into(), Box::new(c), cov, jobj! {"horizon"=>hor}))
                }
                2 => {
                    let c = arrival::ArrivalCurvePrefix::from_arrival_bound_until(&s, Duration::from(hor));
                    Some(("ArrivalCurvePrefix::from_arrival_bound_until".into(), Box::new(c), hor, jobj! {"horizon"=>hor}))
                }
                3 if poisson.is_some() => None,
                3 => match &src {
                    Arr::Periodic { t } => {
                        let c = arrival::Curve::from(arrival::Periodic::new(Duration::from(*t)));
                        Some(("Curve::from(Periodic)".into(), Box::new(c), *t, Json::Null))
                    }
                    Arr::Sporadic { t, j } => {
                        let c = arrival::Curve::from(arrival::Sporadic::new(Duration::from(*t), Duration::from(*j)));
                        let cov = u64::from(c.min_distance(usize::MAX / 2));
                        Some(("Curve::from(Sporadic)".into(), Box::new(c), cov, Json::Null))
                    }
                    _ => None,
                },
                _ => {
                    // source -> ArrivalCurvePrefix -> Curve ; both hops must dominate the original
                    if s.number_arrivals(Duration::from(hor)) == 0 {
                        // nothing arrives within the horizon: the recorded prefix has no steps and the
                        // delta-min vector would be empty (rejected by Curve::new's documented assertion)
                        return None;
                    }
                    let p = arrival::ArrivalCurvePrefix::from_arrival_bound_until(&s, Duration::from(hor));
                    let c = arrival::Curve::from(&p);
                    Some(("Curve::from(&ArrivalCurvePrefix)".into(), Box::new(c), hor, jobj! {"horizon"=>hor}))
                }
            }
        });
        let (name, derived, covered, params) = match built {
            Err(c) => {
                rep.violation(format!("C12 conv=#{} kind={} class={}", conv, c.kind, c.class()), jobj! {"source"=>sj.clone(),"caught"=>c.to_json()});
                return;
            }
            Ok(None) => return,
            Ok(Some(b)) => b,
        };
        if name.starts_with("Curve") && covered == 0 {
            // the recorded prefix consists of zero distances only (burst larger than the requested
            // prefix): it denotes an unbounded process -- outside the domain
            rep.count("skipped_unbounded_inferred_prefix (last distance 0)", 1);
            return;
        }
        // (the Poisson approximation needs O(n^2) work per query: keep its tables short)
        let upto = if poisson.is_some() { (3 * covered.max(1)).min(400).max(40) } else { (20 * covered.max(1)).min(3000).max(40) };
        let tabs = guard(|| (table(&*build_src(), upto), table(&*derived, upto)));
        let (fs, fd) = match tabs {
            Err(c) => {
                rep.violation(format!("C12 conv={} kind={}-in-number_arrivals class={}", name, c.kind, c.class()), jobj! {"source"=>sj.clone(),"params"=>params.clone(),"caught"=>c.to_json()});
                return;
            }
            Ok(t) => t,
        };
        rep.count("conversions", 1);
        for x in 0..=upto as usize {
            rep.count("domination_points_checked", 1);
            if fd[x] < fs[x] {
                if source_not_subadditive(&fs, x) {
                    rep.count("non_domination_explained_by_non_subadditive_source", 1);
                    break;
                }
                rep.violation(
                    format!("C12 conv={} kind=derived-below-source", name),
                    jobj! {"source"=>sj.clone(),"params"=>params.clone(),"delta"=>x,"derived"=>fd[x],"source_value"=>fs[x],"covered_prefix"=>covered},
                );
                break;
            }
        }
        for x in 0..(covered.min(upto) as usize) {
            // a delta-min vector cannot say "no event in a non-empty window": where the source claims 0
            // arrivals for delta >= 1 (low-rate Poisson approximations only) a Curve necessarily says 1
            if x >= 1 && fs[x] == 0 && name.starts_with("Curve") {
                rep.count("exactness_points_skipped_source_zero_for_nonempty_window", 1);
                continue;
            }
            rep.count("exactness_points_checked", 1);
            if fd[x] != fs[x] {
                rep.violation(
                    format!("C12 conv={} kind=derived-differs-from-source-inside-covered-prefix", name),
                    jobj! {"source"=>sj.clone(),"params"=>params.clone(),"delta"=>x,"derived"=>fd[x],"source_value"=>fs[x],"covered_prefix"=>covered},
                );
                break;
            }
        }
        if poisson.is_some() || src.max_jitter() > 0 || !src.is_leaf() || matches!(src, Arr::Curve { .. } | Arr::Extrap { .. }) {
            let mut w = vec![42, conv, njobs as u64, hor, poisson.map(|p| p.0.to_bits()).unwrap_or(0)];
            src.words(&mut w);
            rep.nontrivial_key(&w);
        }

        // ---------------------------------------------------------------- (c) duality
        let nmax = (fs[upto as usize] as usize).min(60);
        let items = guard(|| {
            let s = build_src();
            let full = arrival::delta_min_iter(&s).take(nmax + 1).map(|(n, x)| (n, u64::from(x))).collect::<Vec<_>>();
            // the second public entry point reports the same pairs without the two trivial ones
            let nz = arrival::nonzero_delta_min_iter(&s).take(nmax.saturating_sub(1)).map(|(n, x)| (n, u64::from(x))).collect::<Vec<_>>();
            if full.len() >= 2 && nz[..] != full[2..] {
                panic!("nonzero_delta_min_iter {:?} differs from delta_min_iter {:?}", nz, full);
            }
            full
        });
        match items {
            Err(c) => rep.violation(format!("C12 conv=delta_min_iter kind={} class={}", c.kind, c.class()), jobj! {"source"=>sj.clone(),"caught"=>c.to_json()}),
            Ok(items) => {
                let mut want: Vec<(usize, u64)> = vec![(0, 0), (1, 0)];
                for n in 2..=nmax {
                    // least x with f(x+1) >= n
                    if let Some(x) = (0..upto).find(|x| fs[(*x + 1) as usize] as usize >= n) {
                        want.push((n, x));
                    }
                }
                want.truncate(nmax + 1);
                rep.count("delta_min_items_compared", want.len() as u64);
                if items.len() < want.len() || items[..want.len()] != want[..] {
                    let k = (0..want.len()).find(|k| items.get(*k) != Some(&want[*k])).unwrap_or(0);
                    rep.violation(
                        "C12 conv=delta_min_iter kind=not-the-dual-of-number_arrivals".to_string(),
                        jobj! {"source"=>sj.clone(),"position"=>k,"yielded"=>items.get(k).map(|(n,x)| vec![*n as u64,*x]),"expected_(n,least x with f(x+1)>=n)"=>vec![want[k].0 as u64, want[k].1]},
                    );
                }
            }
        }
    }
}
