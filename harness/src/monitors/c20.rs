//! C20 — analyses are total and independent of the build profile.
//!
//! The same seeded corpus is executed by this (checked) binary and by the
//! release binary (run as a sub-process in worker mode); every case runs
//! under catch_unwind with the loop budget armed. Any panic, any exhausted
//! budget and any difference between the two outcome logs is a violation.

use std::collections::HashMap;
use std::io::Read;
use std::process::{Command, Stdio};
use std::sync::OnceLock;

use response_time_analysis::arrival::{self, ArrivalBound};
use response_time_analysis::fixed_point;
use response_time_analysis::supply::SupplyBound;
use response_time_analysis::time::{Duration, Offset, Service};
use response_time_analysis::wcet::{self, JobCostModel};

use crate::framework::{guard_fuel, CaseReport, Monitor, Tier};
use crate::jobj;
use crate::json::Json;
use crate::model::arr::{gen_dmin, Arr, ArrGen};
use crate::model::cost::{gen_cost, gen_cumulative, Cost};
use crate::model::dem::Dem;
use crate::model::ros::{self, RosProblem};
use crate::model::uni::{self, Outcome, Policy};
use crate::monitors::c06;
use crate::monitors::c08::{build_supply, gen_supply, Staircase};
use crate::rng::{case_seed, hash_words, Rng};

pub struct C20;

pub const FUEL: u64 = 600_000;

pub struct Case {
    /// loop budget for this case (model queries need far fewer iterations than analyses)
    pub fuel: u64,
    pub entry: String,
    pub input_class: &'static str,
    pub desc: Json,
    run: Box<dyn Fn() -> String>,
}

fn contains_prefix(a: &Arr) -> bool {
    match a {
        Arr::Prefix { .. } => true,
        Arr::Propagated { inner, .. } | Arr::Jittered { inner, .. } => contains_prefix(inner),
        Arr::Sum { parts } | Arr::RcSlice { parts } => parts.iter().any(contains_prefix),
        Arr::SumOf { a, b } => contains_prefix(a) || contains_prefix(b),
        _ => false,
    }
}

fn dem_arrs(d: &Dem) -> Vec<Arr> {
    d.arrs().into_iter().cloned().collect()
}

fn wide_arr(rng: &mut Rng, scale: u64) -> Arr {
    let g = ArrGen { scale, allow_never: true, allow_prefix: rng.chance(1, 6), allow_composite: true, allow_curve: true, max_jitter_factor: 3 };
    if rng.chance(1, 3) {
        g.any(rng, 2)
    } else {
        g.leaf(rng)
    }
}

fn vals(v: &[u64]) -> String {
    let head: Vec<String> = v.iter().take(6).map(|x| x.to_string()).collect();
    format!("vals:{:016x}:{}", hash_words(v), head.join(","))
}

pub fn gen_case(seed: u64) -> Case {
    let mut rng = Rng::new(seed);
    let scale = *rng.pick(&[4u64, 12, 40]);
    match rng.range(0, 13) {
        // ------------------------------------------------ uniprocessor analyses
        0..=3 => {
            let limit = *rng.pick(&[1u64, 5, 40, 300, 300, 2000]);
            let mut p = c06::gen_problem(&mut rng, Tier::Quick, limit);
            // degenerate roles on purpose
            if rng.chance(1, 8) {
                p.tua.arr = Arr::Never;
            }
            if rng.chance(1, 8) {
                p.tua.arr = wide_arr(&mut rng, scale);
            }
            if rng.chance(1, 6) && !p.others.is_empty() {
                let i = rng.usize(0, p.others.len() - 1);
                p.others[i].arr = wide_arr(&mut rng, scale);
            }
            if rng.chance(1, 10) {
                p.others.clear();
            }
            let mut arrs: Vec<&Arr> = vec![&p.tua.arr];
            arrs.extend(p.others.iter().map(|o| &o.arr));
            let input_class = if arrs.iter().any(|a| contains_prefix(a)) {
                "ArrivalCurvePrefix-inside-request-bound"
            } else if p.tua.arr.components().is_empty() && p.policy != Policy::FIFO {
                "task-under-analysis-never-releases"
            } else {
                "regular"
            };
            let desc = p.to_json();
            let entry = p.name();
            Case { fuel: FUEL, entry, input_class, desc, run: Box::new(move || format!("{:?}", Outcome::from(uni::call_lib(&p)))) }
        }
        // ------------------------------------------------ ROS analyses
        4..=7 => {
            let limit = *rng.pick(&[1u64, 5, 40, 300, 300, 1000]);
            let mut p = ros::gen_problem(&mut rng, None, limit);
            let degenerate = rng.range(0, 9);
            match &mut p {
                RosProblem::EventSource { demand, .. } => {
                    if degenerate == 0 {
                        *demand = Dem::Rbf(wide_arr(&mut rng, scale), Cost::Scalar(rng.range(1, 5)));
                    }
                }
                RosProblem::Timer { own, interf, .. } | RosProblem::PollingPoint { own, interf, .. } => {
                    if degenerate == 0 {
                        *own = Dem::Rbf(wide_arr(&mut rng, scale), Cost::Scalar(rng.range(1, 5)));
                    }
                    if degenerate == 1 {
                        *interf = Dem::Aggregate(vec![Dem::Rbf(wide_arr(&mut rng, scale), gen_cost(&mut rng, 6, false))]);
                    }
                }
                RosProblem::Chain { others, .. } => {
                    if degenerate == 0 {
                        *others = Dem::Aggregate(vec![Dem::Rbf(wide_arr(&mut rng, scale), gen_cost(&mut rng, 6, false))]);
                    }
                }
                RosProblem::RR { workload, .. } | RosProblem::BW { workload, .. } => {
                    if degenerate == 0 {
                        for c in workload.iter_mut() {
                            c.arr = Arr::Never;
                        }
                    } else if degenerate == 1 {
                        let i = rng.usize(0, workload.len() - 1);
                        workload[i].arr = wide_arr(&mut rng, scale);
                    }
                }
            }
            let arrs: Vec<Arr> = match &p {
                RosProblem::EventSource { demand, .. } => dem_arrs(demand),
                RosProblem::Timer { own, interf, .. } | RosProblem::PollingPoint { own, interf, .. } => [dem_arrs(own), dem_arrs(interf)].concat(),
                RosProblem::Chain { last, prefix, full, others, .. } => [dem_arrs(last), dem_arrs(prefix), dem_arrs(full), dem_arrs(others)].concat(),
                RosProblem::RR { workload, .. } | RosProblem::BW { workload, .. } => workload.iter().map(|c| c.arr.clone()).collect(),
            };
            let input_class = if arrs.iter().any(contains_prefix) {
                "ArrivalCurvePrefix-inside-request-bound"
            } else if !arrs.is_empty() && arrs.iter().all(|a| a.components().is_empty()) {
                "nothing-ever-arrives"
            } else {
                "regular"
            };
            let desc = p.to_json();
            let entry = p.name().to_string();
            Case { fuel: FUEL, entry, input_class, desc, run: Box::new(move || format!("{:?}", Outcome::from(ros::call_lib(&p)))) }
        }
        // ------------------------------------------------ arrival model queries
        8 => {
            let arr = wide_arr(&mut rng, scale);
            let deltas: Vec<u64> = (0..12).map(|_| rng.log_range(1, 50 * scale) - 1).collect();
            let jit = rng.range(0, 3 * scale);
            let desc = jobj! {"model" => arr.to_json(), "deltas" => &deltas, "added_jitter" => jit};
            let has_prefix = contains_prefix(&arr);
            Case {
                fuel: 60_000,
                entry: "arrival::number_arrivals/steps_iter/clone_with_jitter/delta_min_iter".to_string(),
                input_class: "regular",
                desc,
                run: Box::new(move || {
                    let b = arr.build();
                    let mut v: Vec<u64> = deltas.iter().map(|d| b.number_arrivals(Duration::from(*d)) as u64).collect();
                    v.extend(b.steps_iter().take(25).map(u64::from));
                    let j = b.clone_with_jitter(Duration::from(jit));
                    v.extend(deltas.iter().map(|d| j.number_arrivals(Duration::from(*d)) as u64));
                    v.extend(j.steps_iter().take(10).map(u64::from));
                    if !has_prefix {
                        v.extend(arrival::delta_min_iter(&b).take(8).flat_map(|(n, x)| [n as u64, u64::from(x)]));
                    }
                    vals(&v)
                }),
            }
        }
        // ------------------------------------------------ conversions / traces / extrapolation
        9 => {
            let which = rng.range(0, 5);
            let src = loop {
                let a = wide_arr(&mut rng, scale);
                if !contains_prefix(&a) {
                    break a;
                }
            };
            let n = rng.usize(0, 10);
            let h = rng.range(1, 6 * scale);
            let trace: Vec<u64> = {
                let k = rng.usize(2, 12);
                let mut t = 0;
                (0..k)
                    .map(|_| {
                        t += rng.range(1, scale);
                        t
                    })
                    .collect()
            };
            let dmin = gen_dmin(&mut rng, 5, scale, true);
            let never = src.components().is_empty();
            let desc = jobj! {"which" => which, "source" => src.to_json(), "njobs" => n, "horizon" => h, "trace" => &trace, "dmin" => &dmin};
            let (entry, input_class): (&str, &'static str) = match which {
                0 => ("arrival::Curve::from_arrival_bound", if never { "source-never-releases" } else { "regular" }),
                1 => ("arrival::Curve::from_arrival_bound_until", if never { "source-never-releases" } else { "regular" }),
                2 => ("arrival::ArrivalCurvePrefix::from_arrival_bound_until", if never { "source-never-releases" } else { "regular" }),
                3 => ("arrival::Curve::from_trace", "regular"),
                4 => ("arrival::Curve::extrapolate*", "regular"),
                _ => ("arrival::ExtrapolatingCurve", "regular"),
            };
            Case {
                fuel: 60_000,
                entry: entry.to_string(),
                input_class,
                desc,
                run: Box::new(move || {
                    let q = |b: &dyn ArrivalBound| -> Vec<u64> {
                        let mut v: Vec<u64> = [0u64, 1, 2, h, h + 1, 3 * h + 1].iter().map(|d| b.number_arrivals(Duration::from(*d)) as u64).collect();
                        v.extend(b.steps_iter().take(8).map(u64::from));
                        v
                    };
                    let s = src.build();
                    let v = match which {
                        0 => {
                            if never {
                                // an empty delta-min vector is rejected by Curve::new's documented assertion
                                return "skipped:constructor-precondition".to_string();
                            }
                            let c = arrival::Curve::from_arrival_bound(&s, n);
                            if u64::from(c.min_distance(usize::MAX / 2)) == 0 {
                                return "skipped:unbounded-prefix".to_string();
                            }
                            q(&c)
                        }
                        1 => {
                            if never {
                                return "skipped:constructor-precondition".to_string();
                            }
                            let c = arrival::Curve::from_arrival_bound_until(&s, Duration::from(h));
                            if u64::from(c.min_distance(usize::MAX / 2)) == 0 {
                                return "skipped:unbounded-prefix".to_string();
                            }
                            q(&c)
                        }
                        2 => q(&arrival::ArrivalCurvePrefix::from_arrival_bound_until(&s, Duration::from(h))),
                        3 => {
                            let pj = n.max(2);
                            if crate::model::arr::dmin_of_trace(&trace, pj).last() == Some(&0) {
                                return "skipped:unbounded-prefix".to_string();
                            }
                            q(&arrival::Curve::from_trace(trace.iter().map(|t| Offset::from(*t)), pj))
                        }
                        4 => {
                            let mut c = Arr::build_curve(&dmin);
                            c.extrapolate(Duration::from(h));
                            c.extrapolate_steps(n);
                            q(&c)
                        }
                        _ => q(&arrival::ExtrapolatingCurve::new(Arr::build_curve(&dmin))),
                    };
                    vals(&v)
                }),
            }
        }
        // ------------------------------------------------ cost models
        10 => {
            let which = rng.range(0, 2);
            let cost = gen_cost(&mut rng, 20, false);
            let prefix = gen_cumulative(&mut rng, 6, 12);
            let n = rng.usize(0, 12);
            let trace: Vec<u64> = (0..rng.usize(1, 12)).map(|_| rng.range(1, 20)).collect();
            let desc = jobj! {"which" => which, "cost" => cost.to_json(), "cumulative_prefix" => &prefix, "n" => n, "cost_trace" => &trace};
            let entry = match which {
                0 => "wcet::JobCostModel queries",
                1 => "wcet::Curve::extrapolate",
                _ => "wcet::Curve::from_trace",
            };
            Case {
                fuel: 60_000,
                entry: entry.to_string(),
                input_class: if which == 1 && n == 0 { "extrapolate-to-zero-jobs" } else { "regular" },
                desc,
                run: Box::new(move || {
                    let q = |m: &dyn JobCostModel| -> Vec<u64> {
                        let mut v: Vec<u64> = (0..10).map(|k| u64::from(m.cost_of_jobs(k))).collect();
                        v.extend((0..6).map(|k| u64::from(m.least_wcet(k))));
                        v.extend(m.job_cost_iter().take(8).map(u64::from));
                        v
                    };
                    let v = match which {
                        0 => q(&*cost.build()),
                        1 => {
                            let mut c = wcet::Curve::new(prefix.iter().map(|x| Service::from(*x)).collect());
                            c.extrapolate(n);
                            q(&c)
                        }
                        _ => q(&wcet::Curve::from_trace(trace.iter().map(|x| Service::from(*x)), n.max(1))),
                    };
                    vals(&v)
                }),
            }
        }
        // ------------------------------------------------ supplies and fixed-point search
        11 => {
            let (sup, dflt) = gen_supply(&mut rng);
            let demands: Vec<u64> = (0..10).map(|_| rng.log_range(1, 400) - 1).collect();
            let nsteps = rng.usize(0, 3);
            let w = Staircase { base: rng.range(0, 5), steps: (0..nsteps).map(|_| (rng.range(1, 6), rng.range(1, 30), rng.range(0, 40))).collect() };
            let limit = *rng.pick(&[1u64, 10, 200, 2000]);
            let desc = jobj! {"supply" => sup.to_json(), "default_service_time" => dflt, "demands" => &demands, "workload" => w.to_json(), "limit" => limit};
            Case {
                fuel: 60_000,
                entry: "supply queries + fixed_point::search".to_string(),
                input_class: "regular",
                desc,
                run: Box::new(move || {
                    let s = build_supply(sup, dflt);
                    let mut v: Vec<u64> = demands.iter().map(|d| u64::from(s.provided_service(Duration::from(*d)))).collect();
                    v.extend(demands.iter().map(|d| u64::from(s.service_time(Service::from(*d)))));
                    let r = fixed_point::search(&s, Duration::from(limit), |r| Service::from(w.eval(u64::from(r))));
                    format!("{}|{:?}", vals(&v), Outcome::from(r))
                }),
            }
        }
        // ------------------------------------------------ Poisson
        _ => {
            let rate = 10f64.powf(-3.0 + 4.0 * rng.f64());
            let eps = 10f64.powf(-9.0 + 8.5 * rng.f64());
            let mean = 10f64.powf(-3.0 + 6.3 * rng.f64());
            let delta = ((mean / rate).round() as u64).max(if rng.chance(1, 10) { 0 } else { 1 });
            let desc = jobj! {"rate" => rate, "epsilon" => eps, "delta" => delta};
            Case {
                fuel: 60_000,
                entry: "arrival::ApproximatedPoisson::number_arrivals".to_string(),
                input_class: "regular",
                desc,
                run: Box::new(move || {
                    let ap = arrival::ApproximatedPoisson::new(rate, eps);
                    format!("n={}", ap.number_arrivals(Duration::from(delta)))
                }),
            }
        }
    }
}

/// Execute one case under catch_unwind with the loop budget armed.
pub fn run_case_outcome(c: &Case) -> String {
    match guard_fuel(c.fuel, || (c.run)()) {
        Ok(s) => s,
        Err(e) if e.kind == "fuel" => format!("FUEL:{}", e.message),
        Err(e) => format!("PANIC:{}", e.class()),
    }
}

/// Worker mode (run by the release binary): print one outcome line per case.
pub fn worker(seed: u64, n: u64) -> i32 {
    // do not outlive the checked process that started us
    let parent = std::os::unix::process::parent_id();
    std::thread::spawn(move || loop {
        std::thread::sleep(std::time::Duration::from_millis(500));
        if std::os::unix::process::parent_id() != parent {
            std::process::exit(3);
        }
    });
    let threads = std::thread::available_parallelism().map(|x| x.get()).unwrap_or(8).min(16) as u64;
    let mut out: Vec<Vec<(u64, String)>> = vec![];
    std::thread::scope(|s| {
        let hs: Vec<_> = (0..threads)
            .map(|t| {
                s.spawn(move || {
                    let mut v = vec![];
                    let mut i = t;
                    while i < n {
                        let c = gen_case(case_seed(seed, "C20", i));
                        // fingerprint of the input, so that a stale worker binary (different corpus) is noticed
                        let fp = crate::rng::hash_str(&c.desc.to_string()) & 0xffff_ffff;
                        v.push((i, format!("{:08x}|{}", fp, run_case_outcome(&c))));
                        i += threads;
                    }
                    v
                })
            })
            .collect();
        for h in hs {
            out.push(h.join().unwrap());
        }
    });
    let mut all: Vec<(u64, String)> = out.into_iter().flatten().collect();
    all.sort_by_key(|x| x.0);
    let mut s = String::new();
    for (i, o) in all {
        s.push_str(&format!("{}\t{}\n", i, o.replace('\n', " ")));
    }
    print!("{}", s);
    println!("WORKER-DONE\t{}\t{}", n, crate::framework::profile());
    0
}

static RELEASE: OnceLock<Result<HashMap<u64, String>, String>> = OnceLock::new();

fn release_outcomes(seed: u64, n: u64) -> &'static Result<HashMap<u64, String>, String> {
    RELEASE.get_or_init(|| {
        let bin = std::env::var("RTA_VERIF_RELEASE_BIN").ok().unwrap_or_else(|| {
            let me = std::env::current_exe().map(|p| p.to_string_lossy().to_string()).unwrap_or_default();
            me.replace("/checked/", "/release/")
        });
        let mut child = Command::new(&bin)
            .args(["C20-WORKER", "--seed", &seed.to_string(), "--cases", &n.to_string()])
            .stdout(Stdio::piped())
            .stderr(Stdio::null())
            .spawn()
            .map_err(|e| format!("cannot start release worker {}: {}", bin, e))?;
        // generous wall-clock watchdog; its firing is inconclusive, never a violation
        let mut stdout = child.stdout.take().unwrap();
        let (tx, rx) = std::sync::mpsc::channel();
        std::thread::spawn(move || {
            let mut s = String::new();
            let _ = stdout.read_to_string(&mut s);
            let _ = tx.send(s);
        });
        let text = match rx.recv_timeout(std::time::Duration::from_secs(240)) {
            Ok(t) => t,
            Err(_) => {
                let _ = child.kill();
                return Err("release worker did not finish within the 240 s watchdog".to_string());
            }
        };
        let _ = child.wait();
        let mut m = HashMap::new();
        let mut done = false;
        for line in text.lines() {
            let mut it = line.splitn(2, '\t');
            let (a, b) = (it.next().unwrap_or(""), it.next().unwrap_or(""));
            if a == "WORKER-DONE" {
                done = b.ends_with("release");
                continue;
            }
            if let Ok(i) = a.parse::<u64>() {
                m.insert(i, b.to_string());
            }
        }
        if !done {
            return Err("release worker output incomplete (crashed, or not a release build)".to_string());
        }
        Ok(m)
    })
}

static SEED: OnceLock<u64> = OnceLock::new();

pub fn set_seed(seed: u64) {
    let _ = SEED.set(seed);
}

impl Monitor for C20 {
    fn id(&self) -> &'static str {
        "C20"
    }
    fn rule(&self) -> String {
        "case = one call into the public API with a well-formed input: the nine dedicated-processor analyses and the six ROS 2 analyses (inputs as in C06/C07 plus, on purpose, Never in every role incl. the task under analysis and whole workloads, ArrivalCurvePrefix directly inside request bounds, empty interferer sets, limits from 1 to 2000), arrival-model queries (number_arrivals at 0 and large deltas, steps_iter, clone_with_jitter, delta_min_iter), conversions and traces, eager extrapolation, cost-model queries incl. extrapolate(0), supply queries and fixed_point::search on all supply kinds, and the Poisson approximation. Each case is executed under catch_unwind with an iteration budget of 600,000 loop iterations (hook H3) by the checked build (debug assertions + overflow checks on) and by the release build (sub-process); violations: a panic or exhausted budget in either build, or different outcomes. Non-trivial = both builds returned a value; distinct = distinct (entry point, outcome, case).".to_string()
    }
    fn assumptions(&self) -> Vec<String> {
        vec![
            "well-formed as in DESIGN.md §2; inputs whose inferred delta-min prefix ends with distance 0 (unbounded process) and constructor preconditions documented by assertions are skipped".to_string(),
            "termination is restated as 'returns within 600,000 instrumented loop iterations'; loops without a hook (iterator adaptors) are covered only by the wall-clock watchdog of the worker (inconclusive if it fires)".to_string(),
        ]
    }
    fn cases(&self, tier: Tier) -> u64 {
        match tier {
            Tier::Quick => 200_000,
            Tier::Thorough => 3_000_000,
        }
    }
    fn required_counters(&self) -> Vec<&'static str> {
        vec!["cases_compared_between_profiles", "cases_both_returned_a_value"]
    }
    fn prepare(&self, seed: u64) {
        set_seed(seed);
    }

    fn run_case(&self, index: u64, seed: u64, tier: Tier, rep: &mut CaseReport) {
        let run_seed = *SEED.get().unwrap_or(&1);
        let rel = match release_outcomes(run_seed, self.cases(tier)) {
            Ok(m) => m,
            Err(e) => {
                rep.inconclusive = Some(format!("release worker: {}", e));
                return;
            }
        };
        let c = gen_case(seed);
        let mine = run_case_outcome(&c);
        rep.count(&format!("cases[{}]", c.entry), 1);
        let theirs = match rel.get(&index) {
            Some(t) => {
                let (fp, out) = t.split_once('|').unwrap_or(("", t));
                let mine_fp = format!("{:08x}", crate::rng::hash_str(&c.desc.to_string()) & 0xffff_ffff);
                if fp != mine_fp {
                    rep.inconclusive = Some("release worker generated a different input for this case index (stale release binary?)".to_string());
                    return;
                }
                out.to_string()
            }
            None => {
                // replay of a single case: no worker output for this index under another seed -> run nothing
                rep.inconclusive = Some("no release outcome for this case index (replay needs the same seed and tier)".to_string());
                return;
            }
        };
        rep.count("cases_compared_between_profiles", 1);
        if index < 3 {
            rep.sample = Some(jobj! {"entry" => &c.entry, "input" => c.desc.clone(), "checked_outcome" => &mine, "release_outcome" => &theirs});
        }
        let bad = |s: &str| s.starts_with("PANIC:") || s.starts_with("FUEL:");
        let kind = match (bad(&mine), bad(&theirs)) {
            (false, false) if mine == theirs => None,
            (false, false) => Some("results-differ-between-profiles".to_string()),
            (true, true) => Some(format!("fails-in-both-profiles checked={} release={}", short(&mine), short(&theirs))),
            (true, false) => Some(format!("checked-build-fails-release-build-returns checked={}", short(&mine))),
            (false, true) => Some(format!("release-build-fails-checked-build-returns release={}", short(&theirs))),
        };
        match kind {
            None => {
                if !mine.starts_with("skipped") {
                    rep.count("cases_both_returned_a_value", 1);
                    rep.nontrivial_key(&[crate::rng::hash_str(&c.entry), crate::rng::hash_str(&mine), seed]);
                }
            }
            Some(k) => rep.violation(
                format!("C20 entry={} input={} kind={}", c.entry, c.input_class, k),
                jobj! {"entry" => &c.entry, "input" => c.desc.clone(), "checked_outcome" => &mine, "release_outcome" => &theirs},
            ),
        }
    }
}

fn short(s: &str) -> String {
    s.chars().take(90).collect()
}
