//! C15 — the approximated Poisson bound is the (1-epsilon) quantile.

use response_time_analysis::arrival::{ApproximatedPoisson, ArrivalBound, Poisson};
use response_time_analysis::time::Duration;

use crate::framework::{guard_fuel, CaseReport, Monitor, Tier};
use crate::jobj;
use crate::rng::Rng;

pub struct C15;

/// ln(k!) by direct summation (exact enough: relative error ~1e-16 per term).
fn ln_factorials(upto: usize) -> Vec<f64> {
    let mut v = Vec::with_capacity(upto + 1);
    let mut acc = 0.0f64;
    let mut comp = 0.0f64; // Kahan compensation
    v.push(0.0);
    for i in 1..=upto {
        let y = (i as f64).ln() - comp;
        let t = acc + y;
        comp = (t - acc) - y;
        acc = t;
        v.push(acc);
    }
    v
}

/// Log-space Poisson mass function.
fn pmf(mean: f64, k: usize, lnf: &[f64]) -> f64 {
    if mean == 0.0 {
        return if k == 0 { 1.0 } else { 0.0 };
    }
    (-mean + k as f64 * mean.ln() - lnf[k]).exp()
}

/// Upper tails P[N > n] for n in 0..K, summed directly from the far tail
/// inwards (so that tiny tails are not lost to cancellation).
fn upper_tails(mean: f64, kmax: usize, lnf: &[f64]) -> Vec<f64> {
    let mut tails = vec![0.0f64; kmax + 1];
    let mut acc = 0.0f64;
    let mut comp = 0.0f64;
    for k in (1..=kmax).rev() {
        // tails[k-1] = sum_{j >= k} pmf(j)
        let y = pmf(mean, k, lnf) - comp;
        let t = acc + y;
        comp = (t - acc) - y;
        acc = t;
        tails[k - 1] = acc;
    }
    tails
}

const RATES: [f64; 8] = [0.001, 0.01, 0.1, 0.5, 1.0, 2.0, 3.0, 10.0];
const EPSILONS: [f64; 8] = [1e-12, 1e-9, 1e-6, 1e-4, 1e-3, 0.01, 0.1, 0.5];
const MEANS: [f64; 18] = [0.001, 0.01, 0.1, 0.5, 1.0, 2.0, 5.0, 10.0, 30.0, 80.0, 120.0, 150.0, 200.0, 400.0, 700.0, 800.0, 2000.0, 5000.0];

impl Monitor for C15 {
    fn id(&self) -> &'static str {
        "C15"
    }
    fn rule(&self) -> String {
        "case = one (rate, epsilon, delta): the first 8x8x18 cases are the full grid rate in {0.001..10} x epsilon in {1e-12..0.5} x delta chosen so that the mean rate*delta is about {0.001 .. 5000}; the remaining cases draw rate log-uniformly in [1e-3,10], epsilon log-uniformly in [1e-12,0.5] and the mean log-uniformly in [1e-3, 6000]; every sixth random case has epsilon in [1e-13,1e-12] and a mean <= 6 (absolute tolerance 1e-14 instead of 1e-13 there). The oracle evaluates the Poisson mass function in log space and sums upper tails directly; the returned n is accepted iff P[N>n] <= eps(1+1e-6)+1e-13 and (n = 0 or P[N>n-1] > eps(1-1e-6)-1e-13); arrival_probability must be finite, within [0,1] and within relative 1e-9 (absolute 1e-300) of the oracle for k around the mode and in both tails; number_arrivals(0) = 0; number_arrivals is non-decreasing over delta, 2 delta, 3 delta; termination is decided by an iteration budget of n* + 10 sqrt(mean) + 100 loop iterations (hook H3), not by a clock. Non-trivial = mean >= 1 and 0 < n* ; distinct = distinct (rate, epsilon, delta).".to_string()
    }
    fn assumptions(&self) -> Vec<String> {
        vec![
            "epsilon in [1e-13, 0.5] (below 1e-12 only for means <= 6): below about 1e-15 no f64 accumulation of the mass function can reach 1-epsilon".to_string(),
            "ties at machine precision are accepted in either direction (band 1e-6 relative, 1e-13 absolute on the tail probability)".to_string(),
        ]
    }
    fn cases(&self, tier: Tier) -> u64 {
        (RATES.len() * EPSILONS.len() * MEANS.len()) as u64
            + match tier {
                Tier::Quick => 20_000,
                Tier::Thorough => 400_000,
            }
    }
    fn required_counters(&self) -> Vec<&'static str> {
        vec!["quantiles_checked", "mass_function_values_compared", "means_above_125", "means_above_745"]
    }

    fn run_case(&self, index: u64, seed: u64, _tier: Tier, rep: &mut CaseReport) {
        let mut rng = Rng::new(seed);
        let grid = (RATES.len() * EPSILONS.len() * MEANS.len()) as u64;
        let (rate, eps, delta) = if index < grid {
            let i = index as usize;
            let rate = RATES[i % RATES.len()];
            let eps = EPSILONS[(i / RATES.len()) % EPSILONS.len()];
            let mean = MEANS[i / (RATES.len() * EPSILONS.len())];
            (rate, eps, ((mean / rate).round() as u64).max(1))
        } else {
            // every fourth random case: a tiny rate, so that the interval length exceeds 2^32
            let rate = if index % 4 == 3 { 10f64.powf(-11.0 + 5.0 * rng.f64()) } else { 10f64.powf(-3.0 + 4.0 * rng.f64()) };
            let eps = (10f64.powf(-12.0 + 12.0 * rng.f64())).min(0.5);
            let mean = if index % 4 == 3 { 10f64.powf(-1.0 + 4.5 * rng.f64()) } else { 10f64.powf(-3.0 + 6.78 * rng.f64()) };
            (rate, eps, ((mean / rate).round() as u64).max(1))
        };
        // every sixth random case: a very small epsilon (1e-13 .. 1e-12) with a small mean, where the
        // accumulated rounding error of a cumulative sum of at most ~40 terms stays below 1e-14
        let tiny_eps = index >= grid && index % 6 == 5;
        let (rate, eps, delta) = if tiny_eps {
            let rate = 10f64.powf(-3.0 + 3.0 * rng.f64());
            let mean = 10f64.powf(-2.0 + 2.7 * rng.f64());
            (rate, 10f64.powf(-13.0 + rng.f64()), ((mean / rate).round() as u64).max(1))
        } else {
            (rate, eps, delta)
        };
        let abs_tol = if tiny_eps { 1e-14 } else { 1e-13 };
        let mean = rate * delta as f64;
        if tiny_eps {
            if mean > 6.0 {
                return;
            }
            rep.count("epsilons_below_1e-12", 1);
        }
        rep.sample = Some(jobj! {"rate" => rate, "epsilon" => eps, "delta" => delta, "mean" => mean});
        if mean > 7000.0 {
            return;
        }
        if mean > 125.0 {
            rep.count("means_above_125", 1);
        }
        if delta > u32::MAX as u64 {
            rep.count("interval_lengths_above_2^32", 1);
        }
        if mean > 745.0 {
            rep.count("means_above_745", 1);
        }
        let kmax = (mean + 45.0 * mean.sqrt() + 120.0) as usize;
        let lnf = ln_factorials(kmax + 2);
        let tails = upper_tails(mean, kmax, &lnf);
        let nstar = (0..kmax).find(|n| tails[*n] <= eps).unwrap_or(kmax);
        let ap = ApproximatedPoisson::new(rate, eps);
        let po = Poisson { rate };
        let detail = |extra: crate::json::Json| jobj! {"rate"=>rate,"epsilon"=>eps,"delta"=>delta,"mean"=>mean,"oracle_quantile"=>nstar,"observation"=>extra};

        // ---- quantile, with the iteration budget armed
        let fuel = nstar as u64 + (10.0 * mean.sqrt()) as u64 + 100;
        let got = guard_fuel(fuel, || ap.number_arrivals(Duration::from(delta)));
        rep.count("quantiles_checked", 1);
        let band = if mean <= 125.0 { "mean<=125" } else if mean <= 745.0 { "125<mean<=745" } else { "mean>745" };
        match got {
            Err(c) if c.kind == "fuel" => {
                rep.violation(format!("C15 kind=does-not-terminate-within-budget {}", band), detail(jobj! {"budget_iterations"=>fuel,"caught"=>c.to_json()}));
            }
            Err(c) => rep.violation(format!("C15 kind=panic class={}", c.class()), detail(c.to_json())),
            Ok(n) => {
                let t_n = if n < tails.len() { tails[n] } else { 0.0 };
                let ok_upper = t_n <= eps * (1.0 + 1e-6) + abs_tol;
                let ok_lower = n == 0 || (n - 1 < tails.len() && tails[n - 1] > eps * (1.0 - 1e-6) - abs_tol);
                if !ok_upper {
                    rep.violation(
                        format!("C15 kind=quantile-too-small (exceedance probability above epsilon) {}", band),
                        detail(jobj! {"number_arrivals"=>n,"P[N>n]"=>t_n}),
                    );
                } else if !ok_lower {
                    rep.violation(
                        format!("C15 kind=quantile-not-the-smallest {}", band),
                        detail(jobj! {"number_arrivals"=>n,"P[N>n-1]"=>if n>=1 && n-1 < tails.len() {tails[n-1]} else {0.0}}),
                    );
                } else if mean >= 1.0 && nstar > 0 {
                    rep.nontrivial_key(&[rate.to_bits(), eps.to_bits(), delta]);
                }
                // monotone in delta
                let mut prev = n;
                for m in 2..=3u64 {
                    if rate * (delta * m) as f64 > 7000.0 {
                        break;
                    }
                    let f2 = (prev as u64) * 3 + 20 * ((rate * (delta * m) as f64).sqrt() as u64) + 5000;
                    match guard_fuel(f2, || ap.number_arrivals(Duration::from(delta * m))) {
                        Ok(x) => {
                            rep.count("monotonicity_pairs_checked", 1);
                            if x < prev {
                                rep.violation(format!("C15 kind=decreases-in-delta {}", band), detail(jobj! {"delta_a"=>delta*(m-1),"value_a"=>prev,"delta_b"=>delta*m,"value_b"=>x}));
                            }
                            prev = x;
                        }
                        Err(_) => break, // reported above for the base point already or at its own grid point
                    }
                }
            }
        }
        match guard_fuel(1000, || ap.number_arrivals(Duration::from(0))) {
            Ok(0) => {}
            Ok(x) => rep.violation("C15 kind=nonzero-at-delta-zero".to_string(), detail(jobj! {"number_arrivals(0)"=>x})),
            Err(c) => rep.violation(format!("C15 kind=panic-at-delta-zero class={}", c.class()), detail(c.to_json())),
        }

        // ---- mass function
        let mode = mean.floor() as usize;
        let sd = mean.sqrt().ceil() as usize;
        let mut ks = vec![0, 1, 2, mode, mode + 1, mode.saturating_sub(sd), mode + sd, mode + 3 * sd, mode.saturating_sub(3 * sd), nstar, nstar + 1];
        ks.push(rng.usize(0, kmax));
        ks.sort_unstable();
        ks.dedup();
        for k in ks {
            if k > kmax {
                continue;
            }
            let want = pmf(mean, k, &lnf);
            let got = po.arrival_probability(Duration::from(delta), k);
            rep.count("mass_function_values_compared", 1);
            let ok = got.is_finite() && (0.0..=1.0 + 1e-12).contains(&got) && ((got - want).abs() <= 1e-9 * want.abs().max(got.abs()) || (got - want).abs() <= 1e-300);
            if !ok {
                let what = if !got.is_finite() { "not-finite" } else { "differs-from-poisson-pmf" };
                rep.violation(
                    format!("C15 kind=arrival_probability-{} {}", what, band),
                    detail(jobj! {"k"=>k,"arrival_probability"=>got,"poisson_pmf"=>want}),
                );
                break;
            }
        }
    }
}
