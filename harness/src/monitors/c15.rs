//! C15 — the approximated Poisson bound is the (1-epsilon) quantile.

use response_time_analysis::arrival::{ApproximatedPoisson, ArrivalBound, Poisson};
use response_time_analysis::time::Duration;

use crate::framework::{guard_fuel, CaseReport, Monitor, Tier};
use crate::jobj;
use crate::rng::Rng;

pub struct C15;

/// ln(k!) by direct summation (exact enough: relative error ~1e-16 per term).
fn ln_factorials(upto: usize) -> Vec<f64> {
    let mut v = Vec::with_capacity(upto + 1);
    let mut acc = 0.0f64;
    let mut comp = 0.0f64; // Kahan compensation
    v.push(0.0);
    for i in 1..=upto {
        let y = (i as f64).ln() - comp;
        let t = acc + y;
        comp = (t - acc) - y;
        acc = t;
        v.push(acc);
    }
    v
}

/// Log-space Poisson mass function.
fn pmf(mean: f64, k: usize, lnf: &[f64]) -> f64 {
    if mean == 0.0 {
        return if k == 0 { 1.0 } else { 0.0 };
    }
    (-mean + k as f64 * mean.ln() - lnf[k]).exp()
}

/// Upper tails P[N > n] for n in 0..K, summed directly from the far tail
/// inwards (so that tiny tails are not lost to cancellation).
fn upper_tails(mean: f64, kmax: usize, lnf: &[f64]) -> Vec<f64> {
    let mut tails = vec![0.0f64; kmax + 1];
    let mut acc = 0.0f64;
    let mut comp = 0.0f64;
    for k in (1..=kmax).rev() {
        // tails[k-1] = sum_{j >= k} pmf(j)
        let y = pmf(mean, k, lnf) - comp;
        let t = acc + y;
        comp = (t - acc) - y;
        acc = t;
        tails[k - 1] = acc;
    }
    tails
}

/// Means of 10^6 .. 8*10^6: the oracle anchors the mass function at the mode (Stirling series) and
/// extends it by the exact ratio p(k+1)/p(k) = mean/(k+1) over +-60 standard deviations; tails are summed
/// from the far end. The library's own cumulative sum over millions of terms is accurate to about 1e-9
/// absolute, hence epsilon in [1e-7, 1e-6] and a 1% band on the tail probability.
fn huge_mean_case(rng: &mut Rng, rep: &mut CaseReport) {
    // (every other one above 2^64^(1/3) = 2.64 million, where the cube of the job count leaves 64 bits)
    let mean_target = if rng.chance(1, 2) { 10f64.powf(6.45 + 0.45 * rng.f64()) } else { 10f64.powf(6.0 + 0.9 * rng.f64()) };
    let rate = *rng.pick(&[0.25f64, 0.5, 1.0, 2.0]);
    let delta = (mean_target / rate).round() as u64;
    let mean = rate * delta as f64;
    let eps = 10f64.powf(-7.0 + rng.f64());
    rep.sample = Some(jobj! {"rate" => rate, "epsilon" => eps, "delta" => delta, "mean" => mean, "huge_mean" => true});
    rep.count("means_above_10^6", 1);
    let sd = mean.sqrt();
    let mode = mean.floor() as u64;
    let lo = mode - (60.0 * sd) as u64;
    let hi = mode + (60.0 * sd) as u64;
    // ln p(mode) = -m + k ln m - ln k!,  ln k! = k ln k - k + ln(2 pi k)/2 + 1/(12k) - 1/(360k^3)
    let k = mode as f64;
    let x = (mean - k) / k;
    let ln_p_mode = k * (x.ln_1p() - x) - 0.5 * (2.0 * std::f64::consts::PI * k).ln() - 1.0 / (12.0 * k) + 1.0 / (360.0 * k * k * k);
    let n = (hi - lo + 1) as usize;
    let mut p = vec![0.0f64; n];
    let mi = (mode - lo) as usize;
    p[mi] = ln_p_mode.exp();
    for i in mi + 1..n {
        p[i] = p[i - 1] * mean / ((lo + i as u64) as f64);
    }
    for i in (0..mi).rev() {
        p[i] = p[i + 1] * ((lo + i as u64 + 1) as f64) / mean;
    }
    // tails[i] = P[N > lo + i] (mass beyond hi is below 1e-300)
    let mut tails = vec![0.0f64; n];
    let mut acc = 0.0f64;
    for i in (0..n - 1).rev() {
        acc += p[i + 1];
        tails[i] = acc;
    }
    let total: f64 = acc + p[0];
    if (total - 1.0).abs() > 1e-9 {
        rep.inconclusive = Some(format!("huge-mean oracle self-check failed: mass in window = {}", total));
        return;
    }
    let nstar = lo + (0..n).find(|i| tails[*i] <= eps).unwrap() as u64;
    let detail = |extra: crate::json::Json| jobj! {"rate"=>rate,"epsilon"=>eps,"delta"=>delta,"mean"=>mean,"oracle_quantile"=>nstar,"observation"=>extra};
    let ap = ApproximatedPoisson::new(rate, eps);
    let fuel = nstar + 200_000;
    match guard_fuel(fuel, || ap.number_arrivals(Duration::from(delta))) {
        Err(c) if c.kind == "fuel" => rep.violation("C15 kind=does-not-terminate-within-budget mean>10^6".to_string(), detail(jobj! {"budget_iterations"=>fuel,"caught"=>c.to_json()})),
        Err(c) => rep.violation(format!("C15 kind=panic class={}", c.class()), detail(c.to_json())),
        Ok(got) => {
            let got = got as u64;
            rep.count("quantiles_checked", 1);
            let t = |k: u64| if k < lo { 1.0 } else if k > hi { 0.0 } else { tails[(k - lo) as usize] };
            if t(got) > eps * 1.01 {
                rep.violation("C15 kind=quantile-too-small (exceedance probability above epsilon) mean>10^6".to_string(), detail(jobj! {"number_arrivals"=>got,"P[N>n]"=>t(got)}));
            } else if got > 0 && t(got - 1) <= eps * 0.99 {
                rep.violation("C15 kind=quantile-not-the-smallest mean>10^6".to_string(), detail(jobj! {"number_arrivals"=>got,"P[N>n-1]"=>t(got - 1)}));
            } else {
                rep.nontrivial_key(&[rate.to_bits(), eps.to_bits(), delta]);
            }
        }
    }
    let po = Poisson { rate };
    for off in [0i64, 1, -1, (sd / 2.0) as i64, -(sd / 2.0) as i64, sd as i64, -(sd as i64), 2 * sd as i64, -2 * (sd as i64), 4 * sd as i64] {
        let k = (mode as i64 + off) as u64;
        let want = p[(k - lo) as usize];
        let got = po.arrival_probability(Duration::from(delta), k as usize);
        rep.count("mass_function_values_compared", 1);
        if !(got.is_finite() && (got - want).abs() <= 2e-8 * want) {
            rep.violation("C15 kind=arrival_probability-differs-from-poisson-pmf mean>10^6".to_string(), detail(jobj! {"k"=>k,"arrival_probability"=>got,"poisson_pmf"=>want,"relative_difference"=>(got - want).abs() / want}));
            break;
        }
    }
}

const RATES: [f64; 8] = [0.001, 0.01, 0.1, 0.5, 1.0, 2.0, 3.0, 10.0];
const EPSILONS: [f64; 8] = [1e-12, 1e-9, 1e-6, 1e-4, 1e-3, 0.01, 0.1, 0.5];
const MEANS: [f64; 18] = [0.001, 0.01, 0.1, 0.5, 1.0, 2.0, 5.0, 10.0, 30.0, 80.0, 120.0, 150.0, 200.0, 400.0, 700.0, 800.0, 2000.0, 5000.0];

impl Monitor for C15 {
    fn id(&self) -> &'static str {
        "C15"
    }
    fn rule(&self) -> String {
        "case = one (rate, epsilon, delta): the first 8x8x18 cases are the full grid rate in {0.001..10} x epsilon in {1e-12..0.5} x delta chosen so that the mean rate*delta is about {0.001 .. 5000}; the remaining cases draw rate log-uniformly in [1e-3,10], epsilon log-uniformly in [1e-12,0.5] and the mean log-uniformly in [1e-3, 6000]; every sixth random case has epsilon in [1e-13,1e-12] and a mean <= 6 (absolute tolerance 1e-14 instead of 1e-13 there). The oracle evaluates the Poisson mass function in log space and sums upper tails directly; the returned n is accepted iff P[N>n] <= eps(1+1e-6)+1e-13 and (n = 0 or P[N>n-1] > eps(1-1e-6)-1e-13); arrival_probability must be finite, within [0,1] and within relative 1e-9 (absolute 1e-300) of the oracle for k around the mode and in both tails; number_arrivals(0) = 0; number_arrivals is non-decreasing over delta, 2 delta, 3 delta; termination is decided by an iteration budget of n* + 10 sqrt(mean) + 100 loop iterations (hook H3), not by a clock. Non-trivial = mean >= 1 and 0 < n* ; distinct = distinct (rate, epsilon, delta).".to_string()
    }
    fn assumptions(&self) -> Vec<String> {
        vec![
            "epsilon in [1e-13, 0.99] (below 1e-12 only for means <= 6): below about 1e-15 no f64 accumulation of the mass function can reach 1-epsilon".to_string(),
            "ties at machine precision are accepted in either direction (band 1e-6 relative, 1e-13 absolute on the tail probability)".to_string(),
        ]
    }
    fn cases(&self, tier: Tier) -> u64 {
        (RATES.len() * EPSILONS.len() * MEANS.len()) as u64
            + match tier {
                Tier::Quick => 20_000,
                Tier::Thorough => 400_000,
            }
    }
    fn required_counters(&self) -> Vec<&'static str> {
        vec!["quantiles_checked", "mass_function_values_compared", "means_above_125", "means_above_745"]
    }

    fn unguarded_library_failure(&self, c: &crate::framework::Caught, rep: &mut CaseReport) -> bool {
        // this property's objects must answer every query: a library panic / runaway loop that surfaces
        // outside a guarded call (e.g. while the monitor inspects the shared cache) is a violation too
        rep.violation(
            format!("C15 kind=library-{}-outside-a-guarded-call class={}", c.kind, c.class()),
            crate::jobj! {"caught" => c.to_json(), "case" => rep.sample.clone()},
        );
        true
    }
    fn run_case(&self, index: u64, seed: u64, tier: Tier, rep: &mut CaseReport) {
        let mut rng = Rng::new(seed);
        let grid = (RATES.len() * EPSILONS.len() * MEANS.len()) as u64;
        // the last few cases of a run: means in the millions (see `huge_mean_case`)
        let huge = match tier {
            Tier::Quick => 2,
            Tier::Thorough => 12,
        };
        if index + huge >= self.cases(tier) {
            return huge_mean_case(&mut rng, rep);
        }
        let (rate, eps, delta) = if index < grid {
            let i = index as usize;
            let rate = RATES[i % RATES.len()];
            let eps = EPSILONS[(i / RATES.len()) % EPSILONS.len()];
            let mean = MEANS[i / (RATES.len() * EPSILONS.len())];
            (rate, eps, ((mean / rate).round() as u64).max(1))
        } else {
            // every fourth random case: a tiny rate, so that the interval length exceeds 2^32
            let rate = if index % 4 == 3 { 10f64.powf(-11.0 + 5.0 * rng.f64()) } else { 10f64.powf(-3.0 + 4.0 * rng.f64()) };
            // (one random case in ten: an epsilon above one half, i.e. a quantile below the median)
            let eps = if index % 10 == 9 { *rng.pick(&[0.6f64, 0.75, 0.9, 0.99]) } else { (10f64.powf(-12.0 + 12.0 * rng.f64())).min(0.5) };
            let mean = if index % 4 == 3 { 10f64.powf(-1.0 + 4.5 * rng.f64()) } else { 10f64.powf(-3.0 + 6.78 * rng.f64()) };
            (rate, eps, ((mean / rate).round() as u64).max(1))
        };
        // every sixth random case: a very small epsilon (1e-13 .. 1e-12) with a small mean, where the
        // accumulated rounding error of a cumulative sum of at most ~40 terms stays below 1e-14
        let tiny_eps = index >= grid && index % 6 == 5;
        let (rate, eps, delta) = if tiny_eps {
            let rate = 10f64.powf(-3.0 + 3.0 * rng.f64());
            let mean = 10f64.powf(-2.0 + 2.7 * rng.f64());
            (rate, 10f64.powf(-13.0 + rng.f64()), ((mean / rate).round() as u64).max(1))
        } else {
            (rate, eps, delta)
        };
        let abs_tol = if tiny_eps { 1e-14 } else { 1e-13 };
        let mean = rate * delta as f64;
        if tiny_eps {
            if mean > 6.0 {
                return;
            }
            rep.count("epsilons_below_1e-12", 1);
        }
        rep.sample = Some(jobj! {"rate" => rate, "epsilon" => eps, "delta" => delta, "mean" => mean});
        if mean > 7000.0 {
            return;
        }
        if mean > 125.0 {
            rep.count("means_above_125", 1);
        }
        if delta > u32::MAX as u64 {
            rep.count("interval_lengths_above_2^32", 1);
        }
        if mean > 745.0 {
            rep.count("means_above_745", 1);
        }
        let kmax = (mean + 45.0 * mean.sqrt() + 120.0) as usize;
        let lnf = ln_factorials(kmax + 2);
        let tails = upper_tails(mean, kmax, &lnf);
        let nstar = (0..kmax).find(|n| tails[*n] <= eps).unwrap_or(kmax);
        // both public ways of constructing the bound
        let ap = if index % 2 == 1 { Poisson { rate }.approximate(eps) } else { ApproximatedPoisson::new(rate, eps) };
        let po = Poisson { rate };
        let detail = |extra: crate::json::Json| jobj! {"rate"=>rate,"epsilon"=>eps,"delta"=>delta,"mean"=>mean,"oracle_quantile"=>nstar,"observation"=>extra};

        // ---- quantile, with the iteration budget armed
        let fuel = nstar as u64 + (10.0 * mean.sqrt()) as u64 + 100;
        let got = guard_fuel(fuel, || ap.number_arrivals(Duration::from(delta)));
        rep.count("quantiles_checked", 1);
        let band = if mean <= 125.0 { "mean<=125" } else if mean <= 745.0 { "125<mean<=745" } else { "mean>745" };
        match got {
            Err(c) if c.kind == "fuel" => {
                rep.violation(format!("C15 kind=does-not-terminate-within-budget {}", band), detail(jobj! {"budget_iterations"=>fuel,"caught"=>c.to_json()}));
            }
            Err(c) => rep.violation(format!("C15 kind=panic class={}", c.class()), detail(c.to_json())),
            Ok(n) => {
                let t_n = if n < tails.len() { tails[n] } else { 0.0 };
                let ok_upper = t_n <= eps * (1.0 + 1e-6) + abs_tol;
                let ok_lower = n == 0 || (n - 1 < tails.len() && tails[n - 1] > eps * (1.0 - 1e-6) - abs_tol);
                if !ok_upper {
                    rep.violation(
                        format!("C15 kind=quantile-too-small (exceedance probability above epsilon) {}", band),
                        detail(jobj! {"number_arrivals"=>n,"P[N>n]"=>t_n}),
                    );
                } else if !ok_lower {
                    rep.violation(
                        format!("C15 kind=quantile-not-the-smallest {}", band),
                        detail(jobj! {"number_arrivals"=>n,"P[N>n-1]"=>if n>=1 && n-1 < tails.len() {tails[n-1]} else {0.0}}),
                    );
                } else if mean >= 1.0 && nstar > 0 {
                    rep.nontrivial_key(&[rate.to_bits(), eps.to_bits(), delta]);
                }
                // a second model with the same rate and another epsilon, asked the same question in between,
                // must not influence the answer (and must itself be right)
                if !tiny_eps {
                    let eps2 = if eps < 1e-4 { (eps * 1e3).min(0.5) } else { (eps * 1e-3).max(1e-12) };
                    let n2star = (0..kmax).find(|k| tails[*k] <= eps2).unwrap_or(kmax);
                    let other = if index % 4 < 2 { Poisson { rate }.approximate(eps2) } else { ApproximatedPoisson::new(rate, eps2) };
                    let f2 = n2star as u64 + (10.0 * mean.sqrt()) as u64 + 100;
                    let r2 = guard_fuel(f2, || other.number_arrivals(Duration::from(delta)));
                    let again = guard_fuel(fuel, || ap.number_arrivals(Duration::from(delta)));
                    rep.count("interleaved_models_with_equal_rate_checked", 1);
                    if let (Ok(n2), Ok(n_again)) = (&r2, &again) {
                        let t2 = if *n2 < tails.len() { tails[*n2] } else { 0.0 };
                        let ok2 = t2 <= eps2 * (1.0 + 1e-6) + abs_tol && (*n2 == 0 || (*n2 - 1 < tails.len() && tails[*n2 - 1] > eps2 * (1.0 - 1e-6) - abs_tol));
                        if !ok2 || *n_again != n {
                            rep.violation(
                                format!("C15 kind=answer-depends-on-other-models-or-earlier-queries {}", band),
                                detail(jobj! {"first_answer"=>n,"other_epsilon"=>eps2,"other_model_answer"=>*n2,"other_model_oracle_quantile"=>n2star,"first_model_asked_again"=>*n_again}),
                            );
                        }
                    }
                }
                // monotone in delta
                let mut prev = n;
                for m in 2..=3u64 {
                    if rate * (delta * m) as f64 > 7000.0 {
                        break;
                    }
                    let f2 = (prev as u64) * 3 + 20 * ((rate * (delta * m) as f64).sqrt() as u64) + 5000;
                    match guard_fuel(f2, || ap.number_arrivals(Duration::from(delta * m))) {
                        Ok(x) => {
                            rep.count("monotonicity_pairs_checked", 1);
                            if x < prev {
                                rep.violation(format!("C15 kind=decreases-in-delta {}", band), detail(jobj! {"delta_a"=>delta*(m-1),"value_a"=>prev,"delta_b"=>delta*m,"value_b"=>x}));
                            }
                            prev = x;
                        }
                        Err(_) => break, // reported above for the base point already or at its own grid point
                    }
                }
            }
        }
        match guard_fuel(1000, || ap.number_arrivals(Duration::from(0))) {
            Ok(0) => {}
            Ok(x) => rep.violation("C15 kind=nonzero-at-delta-zero".to_string(), detail(jobj! {"number_arrivals(0)"=>x})),
            Err(c) => rep.violation(format!("C15 kind=panic-at-delta-zero class={}", c.class()), detail(c.to_json())),
        }

        // ---- mass function
        let mode = mean.floor() as usize;
        let sd = mean.sqrt().ceil() as usize;
        let mut ks = vec![0, 1, 2, mode, mode + 1, mode.saturating_sub(sd), mode + sd, mode + 3 * sd, mode.saturating_sub(3 * sd), nstar, nstar + 1];
        ks.push(rng.usize(0, kmax));
        ks.sort_unstable();
        ks.dedup();
        for k in ks {
            if k > kmax {
                continue;
            }
            let want = pmf(mean, k, &lnf);
            let got = po.arrival_probability(Duration::from(delta), k);
            rep.count("mass_function_values_compared", 1);
            let ok = got.is_finite() && (0.0..=1.0 + 1e-12).contains(&got) && ((got - want).abs() <= 1e-9 * want.abs().max(got.abs()) || (got - want).abs() <= 1e-300);
            if !ok {
                let what = if !got.is_finite() { "not-finite" } else { "differs-from-poisson-pmf" };
                rep.violation(
                    format!("C15 kind=arrival_probability-{} {}", what, band),
                    detail(jobj! {"k"=>k,"arrival_probability"=>got,"poisson_pmf"=>want}),
                );
                break;
            }
        }
    }
}
