//! C19 — analyses agree with each other on their common special cases.

use crate::framework::{CaseReport, Monitor, Tier};
use crate::jobj;
use crate::model::cost::Cost;
use crate::model::dem::Dem;
use crate::model::ros::{self, RosProblem};
use crate::model::uni::{self, Outcome, Policy, Preempt, UniProblem};
use crate::monitors::c06::gen_problem;
use crate::monitors::c17::scalarize;
use crate::monitors::safety_uni::gen_system;
use crate::oracle::sbf::Sup;
use crate::rng::Rng;

pub struct C19;

fn run(p: &UniProblem, rep: &mut CaseReport) -> Option<Outcome> {
    match uni::run_lib(p) {
        Ok(o) => Some(o),
        Err(_) => {
            rep.count("library_panicked_or_out_of_fuel (decided by C20)", 1);
            None
        }
    }
}

fn compare(rep: &mut CaseReport, relation: &str, a: (&UniProblem, Option<Outcome>), b: (&UniProblem, Option<Outcome>)) {
    if let (Some(x), Some(y)) = (&a.1, &b.1) {
        rep.count("relations_compared", 1);
        rep.count(&format!("relations_compared[{}]", relation), 1);
        if x.ok().is_some() {
            let mut w = a.0.words();
            w.push(crate::rng::hash_str(relation));
            rep.nontrivial_key(&w);
        }
        if x != y {
            rep.violation(
                format!("C19 relation={} kind=results-differ", relation),
                jobj! {"relation" => relation, "first" => a.0.to_json(), "first_result" => x.to_json(), "second" => b.0.to_json(), "second_result" => y.to_json()},
            );
        }
    }
}

impl Monitor for C19 {
    fn id(&self) -> &'static str {
        "C19"
    }
    fn rule(&self) -> String {
        "case = one random system on which all applicable relations are evaluated with identical limits: FP: limited-preemptive(last=1,B) = floating(B); limited-preemptive(last=1,B=0) = fully preemptive; limited-preemptive(last=C,B) = non-preemptive(B). EDF: limited-preemptive(last=1, all max NP = 1) = floating(all max NP = 1) = fully preemptive; limited-preemptive(last=C, others' max NP = their C) = non-preemptive. Equal relative deadlines: max over tasks of non-preemptive EDF = FIFO (both Err, or both Ok and equal). Every ROS 2 analysis: Dedicated = Periodic(P,P) = Constrained(P,P,P) for a random P. rta_event_source(Dedicated) = FIFO for exact arrival models. Non-trivial = first member of the relation returned Ok; distinct = distinct (problem, relation).".to_string()
    }
    fn assumptions(&self) -> Vec<String> {
        vec!["scalar costs; the task under analysis releases at least one job; event-source vs FIFO only on exact (sub-additive) arrival models".to_string()]
    }
    fn cases(&self, tier: Tier) -> u64 {
        match tier {
            Tier::Quick => 80_000,
            Tier::Thorough => 1_500_000,
        }
    }
    fn required_counters(&self) -> Vec<&'static str> {
        vec![
            "relations_compared[FP limited(last=1,B) = floating(B)]",
            "relations_compared[FP limited(last=C,B) = non-preemptive(B)]",
            "relations_compared[EDF limited(all segments 1) = fully preemptive]",
            "relations_compared[EDF limited(segments = WCETs) = non-preemptive]",
            "relations_compared[equal deadlines: max non-preemptive EDF = FIFO]",
            "relations_compared[ROS: Dedicated = Periodic(P,P)]",
            "relations_compared[rta_event_source(Dedicated) = FIFO]",
        ]
    }

    fn run_case(&self, index: u64, seed: u64, tier: Tier, rep: &mut CaseReport) {
        let mut rng = Rng::new(seed);
        let limit = *rng.pick(&[100u64, 600, 2000]);
        match index % 4 {
            0 => {
                // ---------------- FP family
                let mut p = loop {
                    let p = gen_problem(&mut rng, tier, limit);
                    if p.policy == Policy::FP {
                        break p;
                    }
                };
                p.tua.cost = Cost::Scalar(p.tua.scalar());
                if p.tua.arr.components().is_empty() {
                    return;
                }
                rep.sample = Some(p.to_json());
                let c = p.tua.scalar();
                let mk = |pre: Preempt, last: u64, b: u64| {
                    let mut q = p.clone();
                    q.pre = pre;
                    q.tua.last_seg = last;
                    q.blocking = b;
                    q
                };
                let b = p.blocking;
                let lp1 = mk(Preempt::Limited, 1, b);
                let fl = mk(Preempt::Floating, 1, b);
                let lp10 = mk(Preempt::Limited, 1, 0);
                let full = mk(Preempt::Full, 1, 0);
                let lpc = mk(Preempt::Limited, c, b);
                let np = mk(Preempt::Non, c, b);
                let (r1, r2) = (run(&lp1, rep), run(&fl, rep));
                compare(rep, "FP limited(last=1,B) = floating(B)", (&lp1, r1), (&fl, r2));
                let (r1, r2) = (run(&lp10, rep), run(&full, rep));
                compare(rep, "FP limited(last=1,B=0) = fully preemptive", (&lp10, r1), (&full, r2));
                let (r1, r2) = (run(&lpc, rep), run(&np, rep));
                compare(rep, "FP limited(last=C,B) = non-preemptive(B)", (&lpc, r1), (&np, r2));
            }
            1 => {
                // ---------------- EDF family
                let mut p = loop {
                    let p = gen_problem(&mut rng, tier, limit);
                    if p.policy == Policy::EDF {
                        break p;
                    }
                };
                p.tua.cost = Cost::Scalar(p.tua.scalar());
                for o in p.others.iter_mut() {
                    o.cost = Cost::Scalar(o.scalar());
                }
                if p.tua.arr.components().is_empty() {
                    return;
                }
                rep.sample = Some(p.to_json());
                let c = p.tua.scalar();
                let mk = |pre: Preempt, last: u64, np_is_wcet: bool| {
                    let mut q = p.clone();
                    q.pre = pre;
                    q.tua.last_seg = last;
                    for o in q.others.iter_mut() {
                        o.max_np = if np_is_wcet { o.scalar() } else { 1 };
                    }
                    q
                };
                let lp1 = mk(Preempt::Limited, 1, false);
                let fl1 = mk(Preempt::Floating, 1, false);
                let full = mk(Preempt::Full, 1, false);
                let lpc = mk(Preempt::Limited, c, true);
                let np = mk(Preempt::Non, c, true);
                let (a, b, f) = (run(&lp1, rep), run(&fl1, rep), run(&full, rep));
                compare(rep, "EDF limited(all segments 1) = floating(max NP 1)", (&lp1, a.clone()), (&fl1, b));
                compare(rep, "EDF limited(all segments 1) = fully preemptive", (&lp1, a), (&full, f));
                let (a, b) = (run(&lpc, rep), run(&np, rep));
                compare(rep, "EDF limited(segments = WCETs) = non-preemptive", (&lpc, a), (&np, b));
            }
            2 => {
                // ---------------- equal deadlines: max NP-EDF = FIFO ; event source = FIFO
                let sys = gen_system(&mut rng, tier, true, true);
                rep.sample = Some(sys.to_json());
                let fifo = UniProblem::from_system(&sys, Policy::FIFO, Preempt::Non, 0, limit);
                let rf = run(&fifo, rep);
                let mut edf: Vec<Outcome> = vec![];
                let mut probs = vec![];
                for i in 0..sys.tasks.len() {
                    let p = UniProblem::from_system(&sys, Policy::EDF, Preempt::Non, i, limit);
                    match run(&p, rep) {
                        Some(o) => edf.push(o),
                        None => return,
                    }
                    probs.push(p);
                }
                if let Some(rf) = rf.clone() {
                    let all_ok = edf.iter().all(|o| o.ok().is_some());
                    let combined = if all_ok { Outcome::Ok(edf.iter().filter_map(|o| o.ok()).max().unwrap()) } else { edf.iter().find(|o| o.is_err()).unwrap().clone() };
                    rep.count("relations_compared", 1);
                    rep.count("relations_compared[equal deadlines: max non-preemptive EDF = FIFO]", 1);
                    let same = match (&combined, &rf) {
                        (Outcome::Ok(a), Outcome::Ok(b)) => a == b,
                        (a, b) => a.is_err() && b.is_err(),
                    };
                    if rf.ok().is_some() {
                        let mut w = sys.words();
                        w.push(77);
                        rep.nontrivial_key(&w);
                    }
                    if !same {
                        rep.violation(
                            "C19 relation=equal deadlines: max non-preemptive EDF = FIFO kind=results-differ".to_string(),
                            jobj! {"tasks" => sys.to_json(), "limit" => limit, "fifo" => rf.to_json(), "edf_np_per_task" => crate::json::Json::Arr(edf.iter().map(|o| o.to_json()).collect())},
                        );
                    }
                }
                // event source on a dedicated processor = FIFO
                let demand = Dem::Aggregate(sys.tasks.iter().map(|t| Dem::Rbf(t.arr.clone(), Cost::Scalar(t.wcet))).collect());
                let es = RosProblem::EventSource { sup: Sup::Dedicated, default_inverse: false, demand, limit };
                if let (Ok(res), Some(rf)) = (ros::run_lib(&es), rf) {
                    rep.count("relations_compared", 1);
                    rep.count("relations_compared[rta_event_source(Dedicated) = FIFO]", 1);
                    let same = match (&res, &rf) {
                        (Outcome::Ok(a), Outcome::Ok(b)) => a == b,
                        (a, b) => a.is_err() && b.is_err(),
                    };
                    if !same {
                        rep.violation(
                            "C19 relation=rta_event_source(Dedicated) = FIFO kind=results-differ".to_string(),
                            jobj! {"tasks" => sys.to_json(), "limit" => limit, "fifo" => rf.to_json(), "event_source" => res.to_json()},
                        );
                    }
                }
            }
            _ => {
                // ---------------- ROS: Dedicated = Periodic(P,P) = Constrained(P,P,P)
                let mut p = ros::gen_problem(&mut rng, Some(((index / 4) % 6) as usize), limit.min(600));
                if rng.chance(1, 2) {
                    scalarize(&mut p);
                }
                rep.sample = Some(p.to_json());
                let per = rng.range(1, 30);
                let mut results = vec![];
                for s in [Sup::Dedicated, Sup::Periodic { q: per, p: per }, Sup::Constrained { q: per, d: per, p: per }] {
                    let mut q = p.clone();
                    q.set_sup(s);
                    match ros::run_lib(&q) {
                        Ok(o) => results.push((q, o)),
                        Err(_) => {
                            rep.count("library_panicked_or_out_of_fuel (decided by C20)", 1);
                            return;
                        }
                    }
                }
                for (k, name) in [(1usize, "ROS: Dedicated = Periodic(P,P)"), (2, "ROS: Dedicated = Constrained(P,P,P)")] {
                    rep.count("relations_compared", 1);
                    rep.count(&format!("relations_compared[{}]", name), 1);
                    if results[0].1.ok().is_some() {
                        let mut w = results[0].0.words();
                        w.push(k as u64);
                        rep.nontrivial_key(&w);
                    }
                    if results[0].1 != results[k].1 {
                        rep.violation(
                            format!("C19 relation={} analysis={} kind=results-differ", name, p.name()),
                            jobj! {"problem" => results[0].0.to_json(), "dedicated_result" => results[0].1.to_json(), "reservation" => results[k].0.sup().0.to_json(), "reservation_result" => results[k].1.to_json()},
                        );
                    }
                }
            }
        }
    }
}
