//! C17 — response-time bounds are monotone in workload and supply.

use crate::framework::{CaseReport, Monitor, Tier};
use crate::jobj;
use crate::json::Json;
use crate::model::arr::{Arr, ArrGen};
use crate::model::cost::Cost;
use crate::model::dem::Dem;
use crate::model::ros::{self, CbSpec, Kind, RosProblem};
use crate::model::uni::{self, Outcome, Policy, Preempt, TaskP, UniProblem};
use crate::monitors::c06::gen_problem;
use crate::oracle::sbf::{SbfTable, Sup};
use crate::rng::Rng;

pub struct C17;

fn add_jitter(a: &mut Arr, k: u64) {
    let inner = std::mem::replace(a, Arr::Never);
    *a = Arr::Jittered { inner: Box::new(inner), j: k };
}

/// Shorten the period of the first periodic/sporadic leaf; false if there is none.
fn shorten_period(a: &mut Arr, k: u64) -> bool {
    match a {
        Arr::Periodic { t } | Arr::Sporadic { t, .. } => {
            if *t > 1 {
                *t = t.saturating_sub(k).max(1);
                true
            } else {
                false
            }
        }
        Arr::Propagated { inner, .. } | Arr::Jittered { inner, .. } => shorten_period(inner, k),
        Arr::Sum { parts } | Arr::RcSlice { parts } => parts.iter_mut().any(|p| shorten_period(p, k)),
        Arr::SumOf { a, b } => shorten_period(a, k) || shorten_period(b, k),
        _ => false,
    }
}

fn bump_cost(c: &mut Cost, k: u64) -> bool {
    match c {
        Cost::Scalar(x) => {
            *x += k;
            true
        }
        _ => false,
    }
}

fn rbfs_mut<'a>(d: &'a mut Dem, out: &mut Vec<&'a mut Dem>) {
    match d {
        Dem::Rbf(..) => out.push(d),
        Dem::Aggregate(p) | Dem::Slice(p) => p.iter_mut().for_each(|x| rbfs_mut(x, out)),
    }
}

fn scalarize_dem(d: &mut Dem) {
    let mut v = vec![];
    rbfs_mut(d, &mut v);
    for r in v {
        if let Dem::Rbf(_, c) = r {
            *c = Cost::Scalar(c.max_job_cost());
        }
    }
}

pub fn scalarize(p: &mut RosProblem) {
    match p {
        RosProblem::EventSource { demand, .. } => scalarize_dem(demand),
        RosProblem::Timer { own, interf, .. } | RosProblem::PollingPoint { own, interf, .. } => {
            scalarize_dem(own);
            scalarize_dem(interf);
        }
        RosProblem::Chain { last, prefix, full, others, .. } => {
            for d in [last, prefix, full, others] {
                scalarize_dem(d);
            }
        }
        RosProblem::RR { workload, .. } | RosProblem::BW { workload, .. } => {
            for c in workload {
                c.cost = Cost::Scalar(c.cost.max_job_cost());
            }
        }
    }
}

/// Apply hardening `which` to one RBF inside a demand; returns a description.
fn harden_dem(d: &mut Dem, which: u64, k: u64, rng: &mut Rng) -> Option<String> {
    let mut v = vec![];
    rbfs_mut(d, &mut v);
    if v.is_empty() {
        return None;
    }
    let i = rng.usize(0, v.len() - 1);
    if let Dem::Rbf(a, c) = &mut *v[i] {
        match which {
            0 => bump_cost(c, k).then(|| format!("WCET +{}", k)),
            1 => {
                add_jitter(a, k);
                Some(format!("release jitter +{}", k))
            }
            _ => shorten_period(a, k).then(|| format!("period -{}", k)),
        }
    } else {
        None
    }
}

/// A supply that provides no more service than `s` in any window.
fn weaker_supply(s: Sup, rng: &mut Rng) -> Option<(Sup, String)> {
    let k = rng.range(1, 3);
    let cand = match s {
        Sup::Dedicated => {
            let p = rng.range(2, 20);
            Sup::Periodic { q: rng.range(1, p - 1), p }
        }
        Sup::Periodic { q, p } => match rng.range(0, 1) {
            0 if q > k => Sup::Periodic { q: q - k, p },
            _ => Sup::Periodic { q, p: p + k },
        },
        Sup::Constrained { q, d, p } => match rng.range(0, 3) {
            0 if q > k => Sup::Constrained { q: q - k, d, p },
            1 if d + k <= p => Sup::Constrained { q, d: d + k, p },
            2 => Sup::Periodic { q, p },
            _ => Sup::Constrained { q, d, p: p + k },
        },
    };
    // the direction is confirmed pointwise on the brute-force supply-bound functions, not assumed
    let (_, _, p1) = s.qdp();
    let (_, _, p2) = cand.qdp();
    let h = 40 * p1.max(p2) + 50;
    let (a, b) = (SbfTable::canonical(s, h), SbfTable::canonical(cand, h));
    if (0..=h).all(|t| b.sbf(t) <= a.sbf(t)) {
        Some((cand, format!("supply {:?} -> {:?}", s, cand)))
    } else {
        None
    }
}

fn relation(base: &Outcome, hard: &Outcome) -> Option<&'static str> {
    match (base, hard) {
        (Outcome::Ok(a), Outcome::Ok(b)) if b < a => Some("bound-decreases-under-hardening"),
        (Outcome::Ok(_), _) => None,
        (_, Outcome::Ok(_)) => Some("divergence-error-turns-into-ok-under-hardening"),
        _ => None,
    }
}

impl Monitor for C17 {
    fn id(&self) -> &'static str {
        "C17"
    }
    fn rule(&self) -> String {
        "case = one (base, hardened) pair per applicable hardening of a random analysis input; even cases: the nine dedicated-processor analyses (hardenings: WCET +k of the analysed or an interfering task, release jitter +k, blocking bound +k, an interferer's max NP segment +k, a period -k, one more interfering task); odd cases: the six ROS 2 analyses with scalar costs (WCET +k, jitter +k, blocking +k, period -k, one more interfering callback, supply replaced by one that provides no more service in any window: Q-k, P+k, D+k, Dedicated->Periodic, Constrained->Periodic — the direction of every supply pair is confirmed pointwise on brute-force SBFs first). Relation: Ok(a)->Ok(b) needs b >= a; Err->Ok is forbidden; Ok->Err is allowed; additionally limit+k must reproduce every Ok result exactly. Non-trivial = base Ok and the hardened result differs from the base; distinct = distinct (base, hardening).".to_string()
    }
    fn assumptions(&self) -> Vec<String> {
        vec![
            "the analysed task's own last-segment length is not treated as a hardening (a longer final segment legitimately lowers the bound)".to_string(),
            "rr/bw assumed response-time bounds are kept fixed within a pair".to_string(),
        ]
    }
    fn cases(&self, tier: Tier) -> u64 {
        match tier {
            Tier::Quick => 120_000,
            Tier::Thorough => 2_000_000,
        }
    }
    fn required_counters(&self) -> Vec<&'static str> {
        vec!["pairs_compared", "pairs_with_changed_result", "limit_pairs_compared", "supply_pairs_compared"]
    }

    fn run_case(&self, index: u64, seed: u64, tier: Tier, rep: &mut CaseReport) {
        let mut rng = Rng::new(seed);
        if index % 2 == 0 {
            self.uni(&mut rng, tier, rep);
        } else {
            self.ros(&mut rng, index, rep);
        }
    }
}

impl C17 {
    fn uni(&self, rng: &mut Rng, tier: Tier, rep: &mut CaseReport) {
        let limit = *rng.pick(&[200u64, 1000]);
        let mut base = gen_problem(rng, tier, limit);
        // scalar costs only (the property's domain)
        base.tua.cost = Cost::Scalar(base.tua.scalar());
        for o in base.others.iter_mut() {
            o.cost = Cost::Scalar(o.scalar());
        }
        if base.tua.arr.components().is_empty() && base.policy != Policy::FIFO {
            return;
        }
        rep.sample = Some(base.to_json());
        let b = match uni::run_lib(&base) {
            Ok(o) => o,
            Err(_) => {
                rep.count("library_panicked_or_out_of_fuel (decided by C20)", 1);
                return;
            }
        };
        let k = rng.range(1, 6);
        let mut variants: Vec<(String, UniProblem)> = vec![];
        let fifo = base.policy == Policy::FIFO;
        if !fifo {
            let mut h = base.clone();
            h.tua.cost = Cost::Scalar(h.tua.scalar() + k);
            variants.push((format!("analysed task WCET +{}", k), h));
            // jitter and period changes realign the search space: try several magnitudes
            for kk in [1, 2, k + 2, rng.range(1, 30)] {
                let mut h = base.clone();
                add_jitter(&mut h.tua.arr, kk);
                variants.push((format!("analysed task release jitter +{}", kk), h));
                let mut h = base.clone();
                if shorten_period(&mut h.tua.arr, kk) {
                    variants.push((format!("analysed task period -{}", kk), h));
                }
            }
        }
        if !base.others.is_empty() {
            let i = rng.usize(0, base.others.len() - 1);
            let mut h = base.clone();
            h.others[i].cost = Cost::Scalar(h.others[i].scalar() + k);
            if base.policy == Policy::EDF && base.pre == Preempt::Non {
                // NP: the whole job is one segment
            }
            variants.push((format!("interfering task {} WCET +{}", i, k), h));
            for kk in [1, k + 1, rng.range(1, 30)] {
                let mut h = base.clone();
                add_jitter(&mut h.others[i].arr, kk);
                variants.push((format!("interfering task {} release jitter +{}", i, kk), h));
                let mut h = base.clone();
                if shorten_period(&mut h.others[i].arr, kk) {
                    variants.push((format!("interfering task {} period -{}", i, kk), h));
                }
            }
            if base.policy == Policy::EDF && matches!(base.pre, Preempt::Limited | Preempt::Floating) {
                let mut h = base.clone();
                h.others[i].max_np += k;
                variants.push((format!("interfering task {} max NP segment +{}", i, k), h));
            }
        }
        if base.policy == Policy::FP && base.pre != Preempt::Full {
            let mut h = base.clone();
            h.blocking += k;
            variants.push((format!("blocking bound +{}", k), h));
        }
        {
            let g = ArrGen { scale: 30, allow_never: false, allow_prefix: false, allow_composite: false, allow_curve: true, max_jitter_factor: 2 };
            let arr = g.leaf(rng);
            let c = rng.range(1, 4);
            let mut h = base.clone();
            h.others.push(TaskP { arr, cost: Cost::Scalar(c), deadline: rng.range(1, 60), last_seg: 1, max_np: rng.range(1, c) });
            variants.push(("one more interfering task".to_string(), h));
        }
        for (what, h) in variants {
            let r = match uni::run_lib(&h) {
                Ok(o) => o,
                Err(_) => {
                    rep.count("library_panicked_or_out_of_fuel (decided by C20)", 1);
                    continue;
                }
            };
            rep.count("pairs_compared", 1);
            rep.count(&format!("pairs_compared[{}]", base.name()), 1);
            if r != b {
                rep.count("pairs_with_changed_result", 1);
                if b.ok().is_some() {
                    let mut w = base.words();
                    w.push(crate::rng::hash_str(&what));
                    rep.nontrivial_key(&w);
                }
            }
            if let Some(kind) = relation(&b, &r) {
                rep.violation(
                    format!("C17 analysis={} kind={} hardening={}", base.name(), kind, what.split(|c: char| c.is_ascii_digit() || c == '+' || c == '-').next().unwrap_or("").trim()),
                    jobj! {"base" => base.to_json(), "hardening" => &what, "base_result" => b.to_json(), "hardened_result" => r.to_json(), "hardened" => h.to_json()},
                );
            }
        }
        // raising the limit never changes an Ok result
        let mut h = base.clone();
        h.limit += rng.range(1, 500);
        if let Ok(r) = uni::run_lib(&h) {
            rep.count("limit_pairs_compared", 1);
            if let Outcome::Ok(a) = b {
                if r != Outcome::Ok(a) {
                    rep.violation(
                        format!("C17 analysis={} kind=ok-result-changes-when-limit-is-raised", base.name()),
                        jobj! {"base" => base.to_json(), "base_result" => b.to_json(), "raised_limit" => h.limit, "result" => r.to_json()},
                    );
                }
            } else if let (Outcome::Diverged(..), Outcome::Ok(_)) = (&b, &r) {
                rep.count("err_became_ok_with_larger_limit (allowed)", 1);
            }
        }
    }

    fn ros(&self, rng: &mut Rng, index: u64, rep: &mut CaseReport) {
        let limit = *rng.pick(&[150u64, 600]);
        let mut base = ros::gen_problem(rng, Some(((index / 2) % 6) as usize), limit);
        scalarize(&mut base);
        rep.sample = Some(base.to_json());
        let b = match ros::run_lib(&base) {
            Ok(o) => o,
            Err(_) => {
                rep.count("library_panicked_or_out_of_fuel (decided by C20)", 1);
                return;
            }
        };
        let k = rng.range(1, 5);
        let mut variants: Vec<(String, RosProblem, bool)> = vec![];
        for which in 0..3u64 {
            let mut h = base.clone();
            let what = match &mut h {
                RosProblem::EventSource { demand, .. } => harden_dem(demand, which, k, rng).map(|s| format!("demand: {}", s)),
                RosProblem::Timer { own, interf, .. } | RosProblem::PollingPoint { own, interf, .. } => {
                    if rng.chance(1, 2) {
                        harden_dem(own, which, k, rng).map(|s| format!("own demand: {}", s))
                    } else {
                        harden_dem(interf, which, k, rng).map(|s| format!("interfering demand: {}", s))
                    }
                }
                RosProblem::Chain { last, prefix, full, others, .. } => {
                    if rng.chance(1, 2) {
                        harden_dem(others, which, k, rng).map(|s| format!("other chains: {}", s))
                    } else {
                        // harden the chain itself consistently: rebuild prefix/full from the last callback's model
                        // (only for chains whose callbacks all use the one arrival model of the chain; chains whose
                        // callbacks carry their own activation jitter are hardened through `other chains` only)
                        let single_model = match &*last {
                            Dem::Rbf(a, _) => prefix.arrs().iter().all(|x| *x == a) && full.arrs().iter().all(|x| *x == a),
                            _ => false,
                        };
                        if !single_model {
                            None
                        } else if let Dem::Rbf(a, c) = last {
                            let (mut a2, mut c2) = (a.clone(), c.clone());
                            let ok = match which {
                                0 => bump_cost(&mut c2, k),
                                1 => {
                                    add_jitter(&mut a2, k);
                                    true
                                }
                                _ => shorten_period(&mut a2, k),
                            };
                            if ok {
                                let pc: u64 = prefix.arrs().len() as u64; // number of prefix callbacks
                                let _ = pc;
                                // total prefix cost (all prefix parts share the chain's arrival model)
                                let ptotal = prefix_total(prefix);
                                *last = Dem::Rbf(a2.clone(), c2.clone());
                                *prefix = if ptotal == 0 { Dem::Aggregate(vec![]) } else { Dem::Rbf(a2.clone(), Cost::Scalar(ptotal)) };
                                *full = Dem::Rbf(a2, Cost::Scalar(ptotal + c2.max_job_cost()));
                                Some(format!("chain under analysis: {}", ["last callback WCET +k", "release jitter +k", "period -k"][which as usize]))
                            } else {
                                None
                            }
                        } else {
                            None
                        }
                    }
                }
                RosProblem::RR { workload, .. } | RosProblem::BW { workload, .. } => {
                    let i = rng.usize(0, workload.len() - 1);
                    let c = &mut workload[i];
                    match which {
                        0 => bump_cost(&mut c.cost, k).then(|| format!("callback {} WCET +{}", i, k)),
                        1 => {
                            add_jitter(&mut c.arr, k);
                            Some(format!("callback {} release jitter +{}", i, k))
                        }
                        _ => shorten_period(&mut c.arr, k).then(|| format!("callback {} period -{}", i, k)),
                    }
                }
            };
            if let Some(w) = what {
                variants.push((w, h, false));
            }
        }
        // blocking
        if let RosProblem::Timer { .. } = &base {
            let mut h = base.clone();
            if let RosProblem::Timer { blocking, .. } = &mut h {
                *blocking += k;
            }
            variants.push((format!("blocking bound +{}", k), h, false));
        }
        // one more interferer
        {
            let g = ArrGen { scale: 30, allow_never: false, allow_prefix: false, allow_composite: false, allow_curve: true, max_jitter_factor: 2 };
            let extra = Dem::Rbf(g.leaf(rng), Cost::Scalar(rng.range(1, 4)));
            let mut h = base.clone();
            let ok = match &mut h {
                RosProblem::EventSource { demand, .. } => {
                    let old = demand.clone();
                    *demand = Dem::Aggregate(vec![old, extra]);
                    true
                }
                RosProblem::Timer { interf, .. } | RosProblem::PollingPoint { interf, .. } => {
                    let old = interf.clone();
                    *interf = Dem::Aggregate(vec![old, extra]);
                    true
                }
                RosProblem::Chain { others, .. } => {
                    let old = others.clone();
                    *others = Dem::Aggregate(vec![old, extra]);
                    true
                }
                RosProblem::RR { workload, .. } | RosProblem::BW { workload, .. } => {
                    if let Dem::Rbf(a, c) = extra {
                        let pr = rng.range(0, 4) as i32;
                        let kind = *rng.pick(&[Kind::Timer, Kind::PolledUnknown, Kind::Polled(pr)]);
                        workload.push(CbSpec { rt_bound: rng.range(1, 60), arr: a, cost: c, kind });
                    }
                    true
                }
            };
            if ok {
                variants.push(("one more interfering callback".to_string(), h, false));
            }
        }
        // weaker supply
        if let Some((s2, what)) = weaker_supply(base.sup().0, rng) {
            let mut h = base.clone();
            h.set_sup(s2);
            variants.push((what, h, true));
        }
        for (what, h, is_supply) in variants {
            let r = match ros::run_lib(&h) {
                Ok(o) => o,
                Err(_) => {
                    rep.count("library_panicked_or_out_of_fuel (decided by C20)", 1);
                    continue;
                }
            };
            rep.count("pairs_compared", 1);
            rep.count(&format!("pairs_compared[{}]", base.name()), 1);
            if is_supply {
                rep.count("supply_pairs_compared", 1);
            }
            if r != b {
                rep.count("pairs_with_changed_result", 1);
                if b.ok().is_some() {
                    let mut w = base.words();
                    w.push(crate::rng::hash_str(&what));
                    rep.nontrivial_key(&w);
                }
            }
            if let Some(kind) = relation(&b, &r) {
                let class: String = if is_supply { "weaker supply".to_string() } else { what.chars().filter(|c| !c.is_ascii_digit()).collect() };
                rep.violation(
                    format!("C17 analysis={} kind={} hardening={}", base.name(), kind, class),
                    jobj! {"base" => base.to_json(), "hardening" => &what, "base_result" => b.to_json(), "hardened_result" => r.to_json(), "hardened" => h.to_json()},
                );
            }
        }
        let mut h = base.clone();
        h.set_limit(base.limit() + rng.range(1, 400));
        if let Ok(r) = ros::run_lib(&h) {
            rep.count("limit_pairs_compared", 1);
            if let Outcome::Ok(a) = b {
                if r != Outcome::Ok(a) {
                    rep.violation(
                        format!("C17 analysis={} kind=ok-result-changes-when-limit-is-raised", base.name()),
                        jobj! {"base" => base.to_json(), "base_result" => b.to_json(), "raised_limit" => h.limit(), "result" => r.to_json()},
                    );
                }
            }
        }
        let _ = Json::Null;
    }
}

fn prefix_total(d: &Dem) -> u64 {
    match d {
        Dem::Rbf(_, c) => c.max_job_cost(),
        Dem::Aggregate(p) | Dem::Slice(p) => p.iter().map(prefix_total).sum(),
    }
}
