use crate::framework::{Monitor, Tier};

pub mod c09;

pub fn by_id(id: &str) -> Option<Box<dyn Monitor>> {
    Some(match id {
        "C09" => Box::new(c09::C09),
        _ => return None,
    })
}

/// Entry points that are not plain monitors (sub-process workers etc.).
pub fn special(_id: &str, _extra: &[String], _tier: Tier, _seed: u64, _verif_dir: &str) -> Option<i32> {
    None
}
