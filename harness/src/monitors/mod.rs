use crate::framework::{Monitor, Tier};

pub mod c04;
pub mod c05;
pub mod c06;
pub mod c07;
pub mod c08;
pub mod c09;
pub mod c10;
pub mod c11;
pub mod c12;
pub mod c13;
pub mod c14;
pub mod c15;
pub mod c16;
pub mod c17;
pub mod c18;
pub mod c19;
pub mod c20;
pub mod safety_uni;
use crate::model::uni::Policy;

pub fn by_id(id: &str) -> Option<Box<dyn Monitor>> {
    Some(match id {
        "C01" => Box::new(safety_uni::SafetyUni { id: "C01", policy: Policy::FP }),
        "C02" => Box::new(safety_uni::SafetyUni { id: "C02", policy: Policy::EDF }),
        "C03" => Box::new(safety_uni::SafetyUni { id: "C03", policy: Policy::FIFO }),
        "C04" => Box::new(c04::C04),
        "C05" => Box::new(c05::C05),
        "C06" => Box::new(c06::C06),
        "C07" => Box::new(c07::C07),
        "C08" => Box::new(c08::C08),
        "C09" => Box::new(c09::C09),
        "C10" => Box::new(c10::C10),
        "C11" => Box::new(c11::C11),
        "C12" => Box::new(c12::C12),
        "C13" => Box::new(c13::C13),
        "C14" => Box::new(c14::C14),
        "C15" => Box::new(c15::C15),
        "C16" => Box::new(c16::C16),
        "C17" => Box::new(c17::C17),
        "C18" => Box::new(c18::C18),
        "C19" => Box::new(c19::C19),
        "C20" => Box::new(c20::C20),
        _ => return None,
    })
}

/// Entry points that are not plain monitors (sub-process workers etc.).
pub fn special(id: &str, _extra: &[String], _tier: Tier, seed: u64, _verif_dir: &str, cases: Option<u64>) -> Option<i32> {
    match id {
        "C20-WORKER" => Some(c20::worker(seed, cases.unwrap_or(1000))),
        "C13-MIRI" => Some(c13::miri_lite(seed)),
        "C14-MIRI" => Some(c14::miri_lite(seed)),
        _ => None,
    }
}
