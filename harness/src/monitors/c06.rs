//! C06 — FP/EDF/FIFO results equal exhaustive evaluation of their equations.

use std::cell::Cell;
use std::rc::Rc;

use response_time_analysis::verif_hooks as hooks;

use crate::framework::{CaseReport, Monitor, Tier};
use crate::jobj;
use crate::model::arr::Arr;
use crate::model::cost::gen_cost_z;
use crate::model::uni::{run_lib, Outcome, Policy, Preempt, UniProblem};
use crate::monitors::safety_uni::gen_system;
use crate::oracle::uni_eq::{evaluate, table_size, Tables};
use crate::rng::Rng;

pub struct C06;

/// A random analysis problem: derived from a random system, then perturbed
/// towards shapes the API allows but concrete systems do not produce.
pub fn gen_problem(rng: &mut Rng, tier: Tier, limit: u64) -> UniProblem {
    let policy = *rng.pick(&[Policy::FP, Policy::FP, Policy::EDF, Policy::EDF, Policy::FIFO]);
    let pre = *rng.pick(&Preempt::ALL);
    let eq = policy != Policy::FP && rng.chance(1, 6);
    let sys = gen_system(rng, tier, false, eq);
    let i = rng.usize(0, sys.tasks.len() - 1);
    let mut p = UniProblem::from_system(&sys, policy, pre, i, limit);
    if policy == Policy::FP && rng.chance(1, 2) {
        p.blocking = rng.range(0, 25);
    }
    // which tasks may carry a non-scalar cost model?
    let tua_rbf_api = policy == Policy::FIFO || matches!(pre, Preempt::Full | Preempt::Floating);
    let others_rbf_api = policy != Policy::EDF || pre != Preempt::Non;
    if tua_rbf_api && rng.chance(1, 3) {
        p.tua.cost = gen_cost_z(rng, p.tua.scalar().max(1));
    }
    for o in p.others.iter_mut() {
        if others_rbf_api && rng.chance(1, 3) {
            o.cost = gen_cost_z(rng, o.scalar().max(1));
            o.max_np = o.max_np.min(o.cost.max_job_cost()).max(1);
        }
        if rng.chance(1, 12) {
            o.arr = Arr::Never;
        }
    }
    if policy == Policy::EDF && rng.chance(1, 3) {
        // arbitrary NP-segment bounds for interfering tasks (the API does not tie them to the cost)
        for o in p.others.iter_mut() {
            if pre != Preempt::Non {
                o.max_np = rng.range(1, 12);
            }
        }
    }
    if matches!(pre, Preempt::Limited) && policy != Policy::FIFO {
        p.tua.last_seg = rng.range(1, p.tua.scalar());
    }
    p
}

impl Monitor for C06 {
    fn id(&self) -> &'static str {
        "C06"
    }
    fn rule(&self) -> String {
        "case = one random input to one of the nine dedicated_uniproc_rta functions (arrival models: Periodic, Sporadic with jitter up to 3T, bursty/plateaued curves, extrapolating curves, propagated/summed/nested models, Never as interferer; costs: Scalar, Multiframe, cost curves where the API takes an RBF; arbitrary deadlines, segment bounds and blocking bounds). The naive evaluator (every offset A in [0,L), linear-scan fixed points, black-box RBF tables) is computed once with a generous limit; the library is then run with limits N-1, N, N+1 and the generous one, where N is the largest least-solution the evaluator needed, and every result (value, Ok/Err, error payload) must equal the evaluator's. Non-trivial = evaluator result Ok with L >= 2 (>= 2 offsets examined by the evaluator); Err cases are counted separately; distinct = distinct problem.".to_string()
    }
    fn assumptions(&self) -> Vec<String> {
        vec![
            "request-bound functions are tabulated from the library (service_needed) and used as black boxes; their correctness is C10/C11/C16's concern".to_string(),
            "AF-form reading of the equations: least x >= 1 with rhs_A(x) <= x (0 if rhs_A(1)=0), F = x -. A; the theorem's F-form is only counted as a statistic".to_string(),
            "the task under analysis releases at least one job and, for the NP/limited-preemptive analyses, has a scalar WCET (API restriction)".to_string(),
        ]
    }
    fn cases(&self, tier: Tier) -> u64 {
        match tier {
            Tier::Quick => 100_000,
            Tier::Thorough => 2_000_000,
        }
    }
    fn required_counters(&self) -> Vec<&'static str> {
        vec!["results_compared", "results_compared_err", "offsets_skipped_by_library_pruning", "limit_equal_to_needed_limit_cases"]
    }

    fn run_case(&self, _index: u64, seed: u64, tier: Tier, rep: &mut CaseReport) {
        let mut rng = Rng::new(seed);
        let generous = *rng.pick(&[150u64, 400, 400, 900]);
        let p = gen_problem(&mut rng, tier, generous);
        if p.tua.arr.components().is_empty() && p.policy != Policy::FIFO {
            rep.count("skipped_tua_never_releases", 1);
            return;
        }
        rep.sample = Some(p.to_json());
        let tb = Tables::new(&p, table_size(&p, generous));
        let o = evaluate(&p, &tb, generous);
        if o.degenerate {
            rep.count("skipped_degenerate", 1);
            return;
        }
        rep.count("evaluator_offsets_examined", o.offsets);
        rep.count("offsets_where_theorem_F_form_differs_from_AF_form", o.f_form_differs);
        let mut limits = vec![generous];
        if o.outcome.ok().is_some() {
            let n = o.needed_limit;
            if n >= 2 {
                limits.push(n - 1);
            }
            if n >= 1 {
                limits.push(n);
                rep.count("limit_equal_to_needed_limit_cases", 1);
            }
            limits.push(n + 1);
            // "no limit": an Ok result never depends on how far beyond the needed value the limit lies
            if rng.chance(1, 4) {
                limits.push(*rng.pick(&[u64::MAX, u64::MAX - 1, u64::MAX / 2]));
            }
        } else {
            limits.push(rng.range(1, generous));
        }
        for lim in limits {
            let mut q = p.clone();
            q.limit = lim;
            let expected = match (&o.outcome, o.l) {
                (Outcome::Ok(v), _) if lim >= o.needed_limit => Outcome::Ok(*v),
                // a smaller limit: evaluate afresh (cheap: the scan stops at the limit)
                _ => evaluate(&q, &tb, lim).outcome,
            };
            // count the offsets the library examines (hook H2)
            let examined = Rc::new(Cell::new(0u64));
            let ex2 = examined.clone();
            hooks::set_item_observer(Some(Box::new(move |_| ex2.set(ex2.get() + 1))));
            let got = run_lib(&q);
            hooks::set_item_observer(None);
            match got {
                Err(c) => {
                    // the evaluator has a defined answer for this input, the library has none
                    rep.violation(
                        format!("C06 analysis={} kind={}-where-evaluation-is-defined class={}", p.name(), c.kind, c.class()),
                        jobj! {"problem" => q.to_json(), "caught" => c.to_json(), "exhaustive_evaluation" => expected.to_json(), "needed_limit" => o.needed_limit},
                    );
                }
                Ok(got) => {
                    rep.count("results_compared", 1);
                    if expected.is_err() {
                        rep.count("results_compared_err", 1);
                    }
                    if got != expected {
                        let kind = match (&got, &expected) {
                            (Outcome::Ok(a), Outcome::Ok(b)) if a < b => "value-below-exhaustive-evaluation",
                            (Outcome::Ok(_), Outcome::Ok(_)) => "value-above-exhaustive-evaluation",
                            (Outcome::Ok(_), _) => "ok-where-evaluation-diverges",
                            (_, Outcome::Ok(_)) => "err-where-evaluation-converges",
                            _ => "error-payload-differs",
                        };
                        rep.violation(
                            format!("C06 analysis={} kind={}", p.name(), kind),
                            jobj! {"problem" => q.to_json(), "library" => got.to_json(), "exhaustive_evaluation" => expected.to_json(),
                            "busy_window_L" => o.l, "offset_attaining_max" => o.argmax, "needed_limit" => o.needed_limit},
                        );
                    } else if lim == generous {
                        if let (Outcome::Ok(_), Some(l)) = (&got, o.l) {
                            if p.policy != Policy::FIFO {
                                rep.count("offsets_examined_by_library", examined.get());
                                rep.count("offsets_skipped_by_library_pruning", l.saturating_sub(examined.get()));
                            } else {
                                rep.count("offsets_skipped_by_library_pruning", 0);
                            }
                            if l >= 2 {
                                rep.nontrivial_key(&q.words());
                            }
                        }
                    }
                }
            }
        }
    }
}
