//! C07 — ROS 2 results equal exhaustive evaluation of their defining equations.

use std::cell::Cell;
use std::rc::Rc;

use response_time_analysis::verif_hooks as hooks;

use crate::framework::{CaseReport, Monitor, Tier};
use crate::jobj;
use crate::model::ros::{gen_problem, run_lib, RosProblem};
use crate::model::uni::Outcome;
use crate::oracle::ros_eq::evaluate;
use crate::oracle::sbf::{SbfTable, Sup};
use crate::rng::Rng;

pub struct C07;

pub fn sbf_table_for(sup: Sup, limit: u64) -> SbfTable {
    let (_, _, p) = sup.qdp();
    SbfTable::canonical(sup, 2 * limit + 64 * p + 40)
}

impl Monitor for C07 {
    fn id(&self) -> &'static str {
        "C07"
    }
    fn rule(&self) -> String {
        "case = one random input to one of the six ROS 2 analyses (event source, timer, polling-point callback, processing chain, rr subchain, bw subchain; supplies Dedicated / Periodic / Constrained, each also via the trait-default service_time; demands: RBFs with Scalar / Multiframe / curve costs, aggregates and slices, Never as interferer; rr/bw: 1-5 callbacks of all four kinds, both priority directions, singleton and multi-callback subchains, assumed bounds from the WCET to 12x the period scale). The naive evaluator (EVERY offset 0..=max busy window resp. 0..max offset, linear-scan fixed points, supply-bound function obtained by sliding windows over a concrete worst-case budget placement computed from (Q,D,P) alone) is computed with a generous limit; the library is run with limits N-1, N, N+1 and the generous one (N = largest least-solution the evaluator needed) and every result (value, Ok/Err, error payload) must be equal. Non-trivial = evaluator result Ok, and (supply not dedicated or >= 2 offsets examined), and >= 2 sources of demand; distinct = distinct problem.".to_string()
    }
    fn assumptions(&self) -> Vec<String> {
        vec![
            "arrival, cost, demand and least-WCET functions of the individual components are tabulated from the library and used as black boxes".to_string(),
            "the evaluator's supply-bound function is the minimum over all window positions on ONE concrete placement (early in the first period, as late as the deadline allows afterwards); C09 checks on every run that this equals the minimum over all placements".to_string(),
            "the callback under analysis releases at least one job".to_string(),
        ]
    }
    fn cases(&self, tier: Tier) -> u64 {
        match tier {
            Tier::Quick => 80_000,
            Tier::Thorough => 1_500_000,
        }
    }
    fn required_counters(&self) -> Vec<&'static str> {
        vec!["results_compared", "results_compared_err", "limit_equal_to_needed_limit_cases", "offsets_skipped_by_library_pruning"]
    }

    fn run_case(&self, index: u64, seed: u64, _tier: Tier, rep: &mut CaseReport) {
        let mut rng = Rng::new(seed);
        let generous = *rng.pick(&[100u64, 250, 250, 500]);
        let mut p = gen_problem(&mut rng, Some((index % 6) as usize), generous);
        if std::env::var("RTA_SCALAR_ONLY").is_ok() {
            crate::monitors::c17::scalarize(&mut p);
        }
        rep.sample = Some(p.to_json());
        let (sup, _) = p.sup();
        let sbf = sbf_table_for(sup, generous);
        let o = evaluate(&p, &sbf, generous);
        rep.count("evaluator_offsets_examined", o.offsets_examined);
        let mut limits = vec![generous];
        if o.outcome.ok().is_some() {
            let n = o.needed_limit;
            if n >= 2 {
                limits.push(n - 1);
            }
            if n >= 1 {
                limits.push(n);
                rep.count("limit_equal_to_needed_limit_cases", 1);
            }
            limits.push(n + 1);
            // (very large limits are exercised for the uniprocessor analyses in C06 and for the search itself
            // in C08; the work of the rr/bw analyses grows with their limit, see DESIGN.md §6.3)
        } else {
            limits.push(rng.range(1, generous));
        }
        for lim in limits {
            let mut q = p.clone();
            q.set_limit(lim);
            let (expected, steps_only, decisive) = match &o.outcome {
                Outcome::Ok(v) if lim >= o.needed_limit => (Outcome::Ok(*v), o.steps_only.clone(), o.decisive_offset),
                _ => {
                    let e = evaluate(&q, &sbf, lim);
                    (e.outcome, e.steps_only, e.decisive_offset)
                }
            };
            if expected == Outcome::AssumptionViolated {
                rep.inconclusive = Some("evaluator's supply table too short".to_string());
                return;
            }
            let examined = Rc::new(Cell::new(0u64));
            let ex2 = examined.clone();
            hooks::set_item_observer(Some(Box::new(move |_| ex2.set(ex2.get() + 1))));
            let got = run_lib(&q);
            hooks::set_item_observer(None);
            match got {
                Err(c) => rep.violation(
                    format!("C07 analysis={} kind={}-where-evaluation-is-defined class={}", p.name(), c.kind, c.class()),
                    jobj! {"problem" => q.to_json(), "caught" => c.to_json(), "exhaustive_evaluation" => expected.to_json(), "needed_limit" => o.needed_limit},
                ),
                Ok(got) => {
                    rep.count("results_compared", 1);
                    rep.count(&format!("results_compared[{}]", p.name()), 1);
                    if expected.is_err() {
                        rep.count("results_compared_err", 1);
                    }
                    if got != expected && steps_only.as_ref() == Some(&got) {
                        // the library equals the evaluation restricted to the step offsets of the analysed
                        // callback's demand, but some NON-step offset yields a larger value / diverges:
                        // pruning the search space is not lossless on this input
                        let wher = decisive.map(|d| d.1).unwrap_or("?");
                        rep.violation(
                            format!("C07 analysis={} kind=pruning-to-step-offsets-changes-the-result where={}", p.name(), wher),
                            jobj! {"problem" => q.to_json(), "library" => got.to_json(), "evaluation_over_every_offset" => expected.to_json(),
                            "evaluation_over_step_offsets_only" => steps_only.as_ref().map(|o| o.to_json()), "decisive_offset" => decisive.map(|d| d.0)},
                        );
                    } else if got != expected {
                        let kind = match (&got, &expected) {
                            (Outcome::Ok(a), Outcome::Ok(b)) if a < b => "value-below-exhaustive-evaluation",
                            (Outcome::Ok(_), Outcome::Ok(_)) => "value-above-exhaustive-evaluation",
                            (Outcome::Ok(_), _) => "ok-where-evaluation-diverges",
                            (_, Outcome::Ok(_)) => "err-where-evaluation-converges",
                            _ => "error-payload-differs",
                        };
                        rep.violation(
                            format!("C07 analysis={} kind={}", p.name(), kind),
                            jobj! {"problem" => q.to_json(), "library" => got.to_json(), "exhaustive_evaluation" => expected.to_json(), "needed_limit" => o.needed_limit},
                        );
                    } else if lim == generous && got.ok().is_some() {
                        if !matches!(p, RosProblem::RR { .. }) {
                            rep.count("offsets_examined_by_library", examined.get());
                            rep.count("offsets_skipped_by_library_pruning", o.offsets_examined.saturating_sub(examined.get()));
                        }
                        let sources = match &p {
                            RosProblem::EventSource { demand, .. } => demand.arrs().len(),
                            RosProblem::Timer { own, interf, blocking, .. } => own.arrs().len() + interf.arrs().len() + (*blocking > 0) as usize,
                            RosProblem::PollingPoint { own, interf, .. } => own.arrs().len() + interf.arrs().len(),
                            RosProblem::Chain { prefix, others, .. } => 1 + prefix.arrs().len() + others.arrs().len(),
                            RosProblem::RR { workload, .. } | RosProblem::BW { workload, .. } => workload.len(),
                        };
                        if sources >= 2 && (sup != Sup::Dedicated || o.offsets_examined >= 2) {
                            rep.nontrivial_key(&q.words());
                        }
                    }
                }
            }
        }
    }
}
