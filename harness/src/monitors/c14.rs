//! C14 — job-cost models bound every run of consecutive jobs.

use response_time_analysis::time::Service;
use response_time_analysis::wcet::{self, JobCostModel};

use crate::framework::{guard, CaseReport, Monitor, Tier};
use crate::jobj;
use crate::json::Json;
use crate::model::cost::{gen_cost_z, gen_cumulative, gen_cumulative_opt, Cost};
use crate::rng::Rng;

pub struct C14;

fn sv(v: &[u64]) -> Vec<Service> {
    v.iter().map(|x| Service::from(*x)).collect()
}

/// Independent sub-additive closure of a cumulative-cost prefix:
/// c(n) = min over a+b=n of c(a)+c(b).
pub fn close_subadditive(v: &[u64], upto: usize) -> Vec<u64> {
    let mut out = v.to_vec();
    while out.len() < upto {
        let n = out.len() + 1;
        let mut best = u64::MAX;
        for a in 1..n {
            let b = n - a;
            best = best.min(out[a - 1] + out[b - 1]);
        }
        out.push(best);
    }
    out
}

/// What a non-extrapolating wcet::Curve documents: whole-prefix repetition.
fn repeat_prefix(v: &[u64], n: usize) -> u64 {
    if n == 0 {
        return 0;
    }
    let x = n / v.len();
    let y = n % v.len();
    v[v.len() - 1] * x as u64 + if y > 0 { v[y - 1] } else { 0 }
}

#[derive(Clone, Debug)]
enum Op {
    Cost { clone: usize, n: usize },
    Least { clone: usize, n: usize },
    NewIter { clone: usize },
    Next { iter: usize },
    Clone { clone: usize },
    DropClone { clone: usize },
}

impl Op {
    fn to_json(&self) -> Json {
        match self {
            Op::Cost { clone, n } => jobj! {"op"=>"cost_of_jobs","clone"=>*clone,"n"=>*n},
            Op::Least { clone, n } => jobj! {"op"=>"least_wcet","clone"=>*clone,"n"=>*n},
            Op::NewIter { clone } => jobj! {"op"=>"job_cost_iter","clone"=>*clone},
            Op::Next { iter } => jobj! {"op"=>"next","iter"=>*iter},
            Op::Clone { clone } => jobj! {"op"=>"clone","clone"=>*clone},
            Op::DropClone { clone } => jobj! {"op"=>"drop","clone"=>*clone},
        }
    }
}

fn gen_history(rng: &mut Rng, len: usize, plen: usize) -> Vec<Op> {
    gen_history_opt(rng, len, plen, false)
}

/// With `big`, one query in twenty asks for 1000-2600 jobs (far beyond anything cached so far).
fn gen_history_opt(rng: &mut Rng, len: usize, plen: usize, big: bool) -> Vec<Op> {
    let mut ops = vec![];
    let mut clones: Vec<(bool, usize)> = vec![(true, 0)];
    let mut iters: Vec<usize> = vec![];
    for _ in 0..len {
        let alive: Vec<usize> = (0..clones.len()).filter(|i| clones[*i].0).collect();
        let c = *rng.pick(&alive);
        let n = match rng.range(0, 3) {
            0 => rng.usize(0, plen + 1),
            1 => rng.usize(0, 4 * plen + 4),
            2 => rng.usize(0, 60),
            _ => 0,
        };
        let n = if big && rng.chance(1, 20) { rng.usize(1000, 2600) } else { n };
        match rng.range(0, 9) {
            0..=2 => ops.push(Op::Cost { clone: c, n }),
            3 | 4 => ops.push(Op::Least { clone: c, n }),
            5 if iters.len() < 3 => {
                ops.push(Op::NewIter { clone: c });
                iters.push(c);
                clones[c].1 += 1;
            }
            5..=7 if !iters.is_empty() => ops.push(Op::Next { iter: rng.usize(0, iters.len() - 1) }),
            8 if alive.len() < 4 => {
                ops.push(Op::Clone { clone: c });
                clones.push((true, 0));
            }
            9 if alive.len() > 1 && clones[c].1 == 0 => {
                ops.push(Op::DropClone { clone: c });
                clones[c].0 = false;
            }
            _ => ops.push(Op::Cost { clone: c, n }),
        }
    }
    ops
}

fn run_history(prefix: &[u64], ops: &[Op], rep: &mut CaseReport) -> Vec<(String, Json)> {
    let mut bad = vec![];
    let can = prefix.len() >= 3;
    let maxn = ops.iter().map(|o| match o { Op::Cost { n, .. } => *n, _ => 0 }).max().unwrap_or(0);
    let nexts = ops.iter().filter(|o| matches!(o, Op::Next { .. })).count();
    let closed = if can { close_subadditive(prefix, maxn.max(nexts) + prefix.len() + 2) } else { prefix.to_vec() };
    let expect_cost = |n: usize| -> u64 {
        if n == 0 {
            0
        } else if can {
            closed[n - 1]
        } else {
            repeat_prefix(prefix, n)
        }
    };
    // least_wcet is determined by the initial prefix: least increment among the first min(n, len) jobs
    let min_inc_all = (0..prefix.len()).map(|i| if i == 0 { prefix[0] } else { prefix[i] - prefix[i - 1] }).min().unwrap();
    let expect_least = |n: usize| -> u64 {
        if n == 0 {
            0
        } else if n >= prefix.len() {
            min_inc_all
        } else {
            (0..n).map(|i| if i == 0 { prefix[0] } else { prefix[i] - prefix[i - 1] }).min().unwrap()
        }
    };
    let fresh = || wcet::ExtrapolatingCurve::new(wcet::Curve::new(sv(prefix)));
    struct Live {
        ptr: *mut wcet::ExtrapolatingCurve,
        alive: bool,
    }
    let mut clones = vec![Live { ptr: Box::into_raw(Box::new(fresh())), alive: true }];
    let mut iters: Vec<(Box<dyn Iterator<Item = Service>>, usize)> = vec![];
    let mut last_cache: Option<(usize, Vec<u64>)> = None;
    let mut lens = std::collections::BTreeSet::new();
    for (k, op) in ops.iter().enumerate() {
        let r = guard(|| -> Option<(String, Json)> {
            match op {
                Op::Cost { clone, n } => {
                    let c = unsafe { &*clones[*clone].ptr };
                    let got = u64::from(c.cost_of_jobs(*n));
                    let fr = u64::from(fresh().cost_of_jobs(*n));
                    if got != fr {
                        return Some(("answer-depends-on-query-history".into(), jobj! {"op_index"=>k,"n"=>*n,"answer"=>got,"fresh_curve_answer"=>fr}));
                    }
                    if got != expect_cost(*n) {
                        return Some(("cost_of_jobs-differs-from-subadditive-closure".into(), jobj! {"op_index"=>k,"n"=>*n,"answer"=>got,"closure"=>expect_cost(*n)}));
                    }
                    None
                }
                Op::Least { clone, n } => {
                    let c = unsafe { &*clones[*clone].ptr };
                    let got = u64::from(c.least_wcet(*n));
                    let fr = u64::from(fresh().least_wcet(*n));
                    if got != fr {
                        return Some(("least_wcet-depends-on-query-history".into(), jobj! {"op_index"=>k,"n"=>*n,"answer"=>got,"fresh_curve_answer"=>fr}));
                    }
                    if got != expect_least(*n) {
                        return Some(("least_wcet-differs-from-least-increment-of-prefix".into(), jobj! {"op_index"=>k,"n"=>*n,"answer"=>got,"expected"=>expect_least(*n)}));
                    }
                    None
                }
                Op::NewIter { clone } => {
                    let c: &'static wcet::ExtrapolatingCurve = unsafe { &*clones[*clone].ptr };
                    iters.push((c.job_cost_iter(), 0));
                    None
                }
                Op::Next { iter } => {
                    let (it, pos) = &mut iters[*iter];
                    let got = it.next().map(u64::from);
                    *pos += 1;
                    let want = expect_cost(*pos) - expect_cost(*pos - 1);
                    if got != Some(want) {
                        return Some(("job_cost_iter-item-differs-from-closure-increment".into(), jobj! {"op_index"=>k,"position"=>*pos,"item"=>got,"expected"=>want}));
                    }
                    None
                }
                Op::Clone { clone } => {
                    let c = unsafe { &*clones[*clone].ptr };
                    clones.push(Live { ptr: Box::into_raw(Box::new(c.clone())), alive: true });
                    None
                }
                Op::DropClone { clone } => {
                    clones[*clone].alive = false;
                    drop(unsafe { Box::from_raw(clones[*clone].ptr) });
                    None
                }
            }
        });
        match r {
            Err(c) => {
                bad.push((format!("{}-during-history class={}", c.kind, c.class()), jobj! {"op_index"=>k,"op"=>op.to_json(),"caught"=>c.to_json()}));
                break;
            }
            Ok(Some(b)) => {
                bad.push(b);
                break;
            }
            Ok(None) => {}
        }
        rep.count("history_operations", 1);
        let mut id: Option<(usize, Vec<u64>)> = None;
        for l in clones.iter().filter(|l| l.alive) {
            let (p, c) = unsafe { &*l.ptr }.verif_cache();
            match &id {
                None => id = Some((p, c)),
                Some((p0, c0)) => {
                    if *p0 != p || *c0 != c {
                        bad.push(("clones-do-not-share-one-cache".into(), jobj! {"op_index"=>k}));
                    }
                }
            }
        }
        if let Some((p, c)) = id {
            if let Some((p0, c0)) = &last_cache {
                if *p0 != p || c.len() < c0.len() || c[..c0.len()] != c0[..] {
                    bad.push(("cache-not-append-only".into(), jobj! {"op_index"=>k,"before"=>c0,"after"=>&c}));
                }
            }
            if can && c.len() <= closed.len() && c[..] != closed[..c.len()] {
                bad.push(("cache-content-differs-from-subadditive-closure".into(), jobj! {"op_index"=>k,"cache"=>&c}));
            }
            rep.count("cache_snapshots_checked", 1);
            lens.insert(c.len());
            last_cache = Some((p, c));
        }
        if !bad.is_empty() {
            break;
        }
    }
    rep.count("distinct_cache_lengths_seen", lens.len() as u64);
    iters.clear();
    for l in clones.iter_mut().filter(|l| l.alive) {
        drop(unsafe { Box::from_raw(l.ptr) });
        l.alive = false;
    }
    bad
}

pub fn miri_lite(seed: u64) -> i32 {
    let mut rng = Rng::new(seed);
    let mut rep = CaseReport::default();
    let mut total = 0;
    for _ in 0..4 {
        let prefix = gen_cumulative(&mut rng, 5, 9);
        let ops = gen_history(&mut rng, 25, prefix.len());
        total += ops.len();
        let bad = run_history(&prefix, &ops, &mut rep);
        if !bad.is_empty() {
            println!("VIOLATION property=C14 replay=none (miri-lite) {:?}", bad[0].0);
            return 1;
        }
    }
    println!("miri-lite C14: {} operations executed, no violation", total);
    0
}

impl Monitor for C14 {
    fn id(&self) -> &'static str {
        "C14"
    }
    fn rule(&self) -> String {
        "case = (A) one cost model (Scalar, Multiframe, cost curve, extrapolating cost curve): cost_of_jobs(0)=0, non-decreasing, = sum of the first n items of job_cost_iter, least_wcet(n) <= each of these items, for n up to 40; (B) one random trace of 1-40 job costs (>= 1, in a third of the cases also zero-cost jobs) (expensive runs placed anywhere, in particular at the very end) and EVERY max_n in 1..=len+1: wcet::Curve::from_trace must bound the total cost of every run of n consecutive jobs anywhere in the trace for every n up to the trace length (also n > max_n); after extrapolate(k) the curve must not exceed the un-extrapolated values and must still dominate the trace; (C) history on wcet::ExtrapolatingCurve: 1-4 clones, up to 3 live job_cost_iter iterators, 40-200 random cost_of_jobs / least_wcet / next / clone / drop operations, each answer compared with the independent sub-additive closure and with a fresh object; hook H4 checks the shared cache is append-only, equals the closure and is shared by all clones. Non-trivial = trace whose most expensive run of some length lies in its last max_n-1 positions, or a history that extended the cache; distinct = distinct trace / (prefix, history).".to_string()
    }
    fn assumptions(&self) -> Vec<String> {
        vec![
            "cumulative prefixes handed to wcet::Curve::new are non-decreasing, sub-additive, with positive increments".to_string(),
            "extrapolate(k) is called with k >= 1".to_string(),
        ]
    }
    fn cases(&self, tier: Tier) -> u64 {
        match tier {
            Tier::Quick => 60_000,
            Tier::Thorough => 1_000_000,
        }
    }
    fn required_counters(&self) -> Vec<&'static str> {
        vec!["trace_runs_checked", "consistency_points_checked", "history_operations", "cache_snapshots_checked", "traces_with_worst_run_at_the_end"]
    }

    fn unguarded_library_failure(&self, c: &crate::framework::Caught, rep: &mut CaseReport) -> bool {
        // this property's objects must answer every query: a library panic / runaway loop that surfaces
        // outside a guarded call (e.g. while the monitor inspects the shared cache) is a violation too
        rep.violation(
            format!("C14 kind=library-{}-outside-a-guarded-call class={}", c.kind, c.class()),
            crate::jobj! {"caught" => c.to_json(), "case" => rep.sample.clone()},
        );
        true
    }
    fn run_case(&self, _index: u64, seed: u64, _tier: Tier, rep: &mut CaseReport) {
        let mut rng = Rng::new(seed);
        // ------------------------------------------------------------ (A)
        let cost = gen_cost_z(&mut rng, 20);
        let r = guard(|| {
            let m = cost.build();
            let items: Vec<u64> = m.job_cost_iter().take(40).map(u64::from).collect();
            let cum: Vec<u64> = (0..=40).map(|n| u64::from(m.cost_of_jobs(n))).collect();
            let least: Vec<u64> = (0..=40).map(|n| u64::from(m.least_wcet(n))).collect();
            (items, cum, least)
        });
        match r {
            Err(c) => rep.violation(format!("C14 model={} kind={} class={}", cost.kind(), c.kind, c.class()), jobj! {"model"=>cost.to_json(),"caught"=>c.to_json()}),
            Ok((items, cum, least)) => {
                let mk = |kind: &str, d: Json| (format!("C14 model={} kind={}", cost.kind(), kind), jobj! {"model"=>cost.to_json(),"observation"=>d});
                let mut out = vec![];
                if cum[0] != 0 {
                    out.push(mk("cost-of-zero-jobs-nonzero", jobj! {"cost_of_jobs(0)"=>cum[0]}));
                }
                // the model must describe the cost sequence it was GIVEN: frames repeated cyclically, a
                // constant, resp. the cumulative values inside the prefix
                match &cost {
                    Cost::Multiframe(v) => {
                        if let Some(i) = (0..40).find(|i| items[*i] != v[*i % v.len()]) {
                            out.push(mk("job_cost_iter-differs-from-the-given-frames-repeated", jobj! {"job"=>i+1,"yielded"=>items[i],"frame"=>v[i % v.len()]}));
                        }
                    }
                    Cost::Scalar(c) => {
                        if let Some(i) = (0..40).find(|i| items[*i] != *c) {
                            out.push(mk("job_cost_iter-differs-from-the-given-wcet", jobj! {"job"=>i+1,"yielded"=>items[i],"wcet"=>*c}));
                        }
                    }
                    Cost::Curve(v) | Cost::Extrap(v) => {
                        if let Some(n) = (1..=v.len().min(40)).find(|n| cum[*n] != v[*n - 1]) {
                            out.push(mk("cost_of_jobs-differs-from-the-given-prefix", jobj! {"n"=>n,"cost_of_jobs"=>cum[n],"given"=>v[n-1]}));
                        }
                    }
                    Cost::FromIter(_) => {}
                }
                let mut acc = 0;
                for n in 1..=40usize {
                    rep.count("consistency_points_checked", 1);
                    acc += items[n - 1];
                    if cum[n] < cum[n - 1] {
                        out.push(mk("cost_of_jobs-decreases", jobj! {"n"=>n,"value"=>cum[n],"previous"=>cum[n-1]}));
                    }
                    if cum[n] != acc {
                        out.push(mk("cost_of_jobs-differs-from-sum-of-job_cost_iter", jobj! {"n"=>n,"cost_of_jobs"=>cum[n],"sum_of_first_n_items"=>acc}));
                    }
                    if let Some(m) = items[..n].iter().min() {
                        if least[n] > *m {
                            out.push(mk("least_wcet-above-a-job-cost", jobj! {"n"=>n,"least_wcet"=>least[n],"smallest_of_first_n_items"=>*m}));
                        }
                    }
                    if out.len() > 2 {
                        break;
                    }
                }
                for (s, d) in out {
                    rep.violation(s, d);
                }
            }
        }

        // ------------------------------------------------------------ (A') curves collected from an iterator
        // FromIterator documents that it makes an arbitrary input monotonic (running maximum)
        {
            use std::iter::FromIterator;
            let n = rng.usize(1, 7);
            let raw: Vec<u64> = (0..n).map(|_| rng.range(0, 20)).collect();
            let r = guard(|| {
                let c = wcet::Curve::from_iter(raw.iter().map(|x| Service::from(*x)));
                let cum: Vec<u64> = (0..=3 * n + 2).map(|k| u64::from(c.cost_of_jobs(k))).collect();
                let items: Vec<u64> = c.job_cost_iter().take(3 * n + 2).map(u64::from).collect();
                let least: Vec<u64> = (0..=3 * n + 2).map(|k| u64::from(c.least_wcet(k))).collect();
                (cum, items, least)
            });
            rep.count("from_iter_curves_checked", 1);
            match r {
                Err(c) => rep.violation(format!("C14 model=Curve::from_iter kind={} class={}", c.kind, c.class()), jobj! {"input"=>&raw,"caught"=>c.to_json()}),
                Ok((cum, items, least)) => {
                    // (these vectors are in general NOT sub-additive: the first job may be the cheapest)
                    for k in 1..cum.len() {
                        let m = *items[..k].iter().min().unwrap();
                        if least[k] > m {
                            rep.violation("C14 model=Curve::from_iter kind=least_wcet-above-a-job-cost".to_string(), jobj! {"input"=>&raw,"n"=>k,"least_wcet"=>least[k],"smallest_of_first_n_items"=>m,"items"=>&items[..k]});
                            break;
                        }
                    }
                    // running maximum = what the constructor promises for the first n values
                    let mut hull = raw.clone();
                    for i in 1..n {
                        hull[i] = hull[i].max(hull[i - 1]);
                    }
                    let mut acc = 0;
                    for k in 1..cum.len() {
                        acc += items[k - 1];
                        if cum[k] < cum[k - 1] {
                            rep.violation("C14 model=Curve::from_iter kind=cost_of_jobs-decreases".to_string(), jobj! {"input"=>&raw,"n"=>k,"value"=>cum[k],"previous"=>cum[k-1]});
                            break;
                        }
                        if cum[k] != acc {
                            rep.violation("C14 model=Curve::from_iter kind=cost_of_jobs-differs-from-sum-of-job_cost_iter".to_string(), jobj! {"input"=>&raw,"n"=>k,"cost_of_jobs"=>cum[k],"sum"=>acc});
                            break;
                        }
                        if k <= n && cum[k] != hull[k - 1] {
                            rep.violation("C14 model=Curve::from_iter kind=not-the-running-maximum-of-the-input".to_string(), jobj! {"input"=>&raw,"n"=>k,"cost_of_jobs"=>cum[k],"running_maximum"=>hull[k-1]});
                            break;
                        }
                    }
                }
            }
        }

        // ------------------------------------------------------------ (B)
        let len = rng.usize(1, 40);
        let hi = *rng.pick(&[3u64, 10, 50]);
        let zero_ok = rng.chance(1, 3);
        let mut trace: Vec<u64> = (0..len).map(|_| if zero_ok && rng.chance(1, 4) { 0 } else { rng.range(1, hi) }).collect();
        // place an expensive run somewhere, often at the very end
        let burst = rng.usize(1, 3.min(len));
        let at = if rng.chance(1, 2) { len - burst } else { rng.usize(0, len - burst) };
        for i in at..at + burst {
            trace[i] += hi * 2;
        }
        rep.sample = Some(jobj! {"cost_trace" => &trace, "model" => cost.to_json()});
        let mut prefix_sums = vec![0u64; len + 1];
        for i in 0..len {
            prefix_sums[i + 1] = prefix_sums[i] + trace[i];
        }
        // worst run of n consecutive jobs, and where it is
        let worst = |n: usize| -> (u64, usize) {
            (0..=len - n).map(|i| (prefix_sums[i + n] - prefix_sums[i], i)).max_by_key(|(v, i)| (*v, *i)).unwrap()
        };
        let mut end_heavy = false;
        for max_n in 1..=(len + 1) {
            let r = guard(|| {
                // (every other max_n: the trace arrives through an iterator that cannot tell its length in advance)
                let c = if max_n % 2 == 0 {
                    wcet::Curve::from_trace(trace.iter().filter(|_| true).map(|x| Service::from(*x)), max_n)
                } else {
                    wcet::Curve::from_trace(trace.iter().map(|x| Service::from(*x)), max_n)
                };
                let plain: Vec<u64> = (0..=len).map(|n| u64::from(c.cost_of_jobs(n))).collect();
                let mut e = c.clone();
                let k = rng.usize(1, 2 * len + 2);
                e.extrapolate(k);
                let ext: Vec<u64> = (0..=len).map(|n| u64::from(e.cost_of_jobs(n))).collect();
                (plain, ext, k)
            });
            match r {
                Err(c) => {
                    rep.violation(format!("C14 model=from_trace kind={} class={}", c.kind, c.class()), jobj! {"cost_trace"=>&trace,"max_n"=>max_n,"caught"=>c.to_json()});
                    break;
                }
                Ok((plain, ext, k)) => {
                    for n in 1..=len {
                        let (w, at) = worst(n);
                        rep.count("trace_runs_checked", (len - n + 1) as u64);
                        if n <= max_n && n >= 2 && at + n > len - (max_n.min(len) - 1) && at + max_n > len {
                            end_heavy = true;
                        }
                        if w > plain[n] {
                            rep.violation(
                                "C14 model=from_trace kind=run-of-consecutive-jobs-exceeds-cost_of_jobs".to_string(),
                                jobj! {"cost_trace"=>&trace,"max_n"=>max_n,"n"=>n,"run_starts_at"=>at,"run_cost"=>w,"cost_of_jobs"=>plain[n]},
                            );
                            return;
                        }
                        if w > ext[n] {
                            rep.violation(
                                "C14 model=from_trace+extrapolate kind=run-of-consecutive-jobs-exceeds-extrapolated-cost".to_string(),
                                jobj! {"cost_trace"=>&trace,"max_n"=>max_n,"extrapolate"=>k,"n"=>n,"run_cost"=>w,"cost_of_jobs"=>ext[n]},
                            );
                            return;
                        }
                        if ext[n] > plain[n] {
                            let inside = n < k; // extrapolate(k) makes the prefix cover k-1 jobs
                            rep.violation(
                                format!("C14 model=from_trace+extrapolate kind=extrapolation-raises-cost-{}", if inside { "inside-extended-prefix" } else { "beyond-extended-prefix" }),
                                jobj! {"cost_trace"=>&trace,"max_n"=>max_n,"extrapolate"=>k,"n"=>n,"extrapolated"=>ext[n],"plain"=>plain[n]},
                            );
                            return;
                        }
                    }
                }
            }
        }
        if end_heavy {
            rep.count("traces_with_worst_run_at_the_end", 1);
            let mut w = vec![51];
            w.extend(trace.iter().copied());
            rep.nontrivial_key(&w);
        }

        // ------------------------------------------------------------ (C)
        let plateau_ok = rng.chance(1, 3);
        let prefix = gen_cumulative_opt(&mut rng, 6, 15, plateau_ok);
        let hl = rng.usize(40, 200);
        let big = _index % 128 == 127;
        if big {
            rep.count("histories_with_queries_for_more_than_1000_jobs", 1);
        }
        let ops = gen_history_opt(&mut rng, hl, prefix.len(), big);
        let before = rep.counters.get("distinct_cache_lengths_seen").copied().unwrap_or(0);
        let bad = run_history(&prefix, &ops, rep);
        let grew = rep.counters.get("distinct_cache_lengths_seen").copied().unwrap_or(0) - before >= 2;
        for (kind, d) in bad {
            rep.violation(
                format!("C14 model=ExtrapolatingCurve kind={}", kind),
                jobj! {"cumulative_prefix"=>&prefix,"observation"=>d,"history"=>Json::Arr(ops.iter().map(|o| o.to_json()).collect())},
            );
        }
        if grew {
            rep.count("histories_that_extended_the_cache", 1);
            let mut w = vec![52, seed];
            w.extend(prefix.iter().copied());
            rep.nontrivial_key(&w);
        }
        let _ = Cost::Scalar(1);
    }
}
