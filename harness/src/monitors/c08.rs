//! C08 — fixed-point search returns the least solution or reports divergence.
//!
//! Direct part: synthetic monotone staircase workloads on all supply kinds.
//! In-situ part (hooks H1/H2): the same leastness oracle runs on every
//! `search_with_offset` exit while real analyses execute, using the analysis'
//! own right-hand-side closure; and the sequence fed to `max_response_time`
//! is matched with the value the analysis returns.

use std::cell::RefCell;
use std::rc::Rc;

use response_time_analysis::fixed_point::{self, SearchFailure, SearchResult};
use response_time_analysis::supply::SupplyBound;
use response_time_analysis::time::{Duration, Offset, Service};
use response_time_analysis::verif_hooks as hooks;

use crate::framework::{guard, CaseReport, Monitor, Tier};
use crate::jobj;
use crate::json::Json;
use crate::model::uni::{run_lib, Outcome, Policy};
use crate::monitors::c06::gen_problem;
use crate::oracle::sbf::{DefaultInverse, Sup};
use crate::rng::Rng;

pub struct C08;

#[derive(Clone, Debug)]
pub struct Staircase {
    pub base: u64,
    /// (cost, period, jitter): contributes cost * ceil((r + jitter) / period)
    pub steps: Vec<(u64, u64, u64)>,
}

impl Staircase {
    pub fn eval(&self, r: u64) -> u64 {
        self.base + self.steps.iter().map(|(c, t, j)| c * ((r + j + t - 1) / t)).sum::<u64>()
    }
    pub fn to_json(&self) -> Json {
        jobj! {"base" => self.base, "steps_[cost,period,jitter]" => Json::Arr(self.steps.iter().map(|(c,t,j)| Json::from(vec![*c,*t,*j])).collect())}
    }
}

pub fn gen_supply(rng: &mut Rng) -> (Sup, bool) {
    let sup = match rng.range(0, 3) {
        0 => Sup::Dedicated,
        1 => {
            let p = rng.log_range(1, 60);
            Sup::Periodic { q: rng.range(1, p), p }
        }
        _ => {
            let p = rng.log_range(1, 60);
            let d = rng.range(1, p);
            Sup::Constrained { q: rng.range(1, d), d, p }
        }
    };
    (sup, rng.chance(1, 3))
}

pub fn build_supply(sup: Sup, default_inverse: bool) -> Box<dyn SupplyBound> {
    if default_inverse {
        Box::new(DefaultInverse(sup.build()))
    } else {
        sup.build()
    }
}

/// Least r in [0, limit] with sbf(offset + r) >= w(max(r,1)), by linear scan.
pub fn least_solution(ps: &dyn Fn(u64) -> u64, w: &dyn Fn(u64) -> u64, offset: u64, limit: u64) -> Option<u64> {
    (0..=limit).find(|r| ps(offset + *r) >= w((*r).max(1)))
}

fn expected_of(sol: Option<u64>, offset: u64, limit: u64) -> Outcome {
    match sol {
        Some(r) => Outcome::Ok(r),
        None => Outcome::Diverged(offset, limit),
    }
}

impl Monitor for C08 {
    fn id(&self) -> &'static str {
        "C08"
    }
    fn rule(&self) -> String {
        "cases = 0 mod 3 (direct): one supply (Dedicated / Periodic / Constrained, each also wrapped so that the trait's default service_time runs), one monotone staircase workload (sum of cost*ceil((r+jitter)/period) terms plus a constant; including zero, constant and diverging ones), offsets in [0, service_time(w(1))], limits around the least solution (sol-1, sol, sol+1, large); search_with_offset and search are compared with a linear scan for the least r >= 0 with provided_service(offset+r) >= w(max(r,1)); max_response_time is run on random Ok/Err sequences. Other cases (in situ): a random FP/EDF/FIFO (1 mod 3) or ROS 2 (2 mod 3; offsets > 0, reservation supplies) analysis problem is analysed with hook H1 installed; for EVERY search the library performs, the result is checked for leastness / true divergence against the analysis' own workload closure, and the item sequence seen by max_response_time (hook H2) is matched with the analysis' return value. Non-trivial = the search needed >= 2 iterations (least solution > w-independent first guess), or diverged, or limit == least solution; distinct = distinct (supply, workload, offset, limit) resp. distinct analysis problem.".to_string()
    }
    fn assumptions(&self) -> Vec<String> {
        vec![
            "'service guaranteed within t' is the supply object's own provided_service (its exactness is C09's concern)".to_string(),
            "offsets satisfy the documented precondition that they lie inside the busy window: service_time(w(1)) >= offset".to_string(),
            "in-situ checks of Err results with limit > 3000 examine 3000 sampled candidate values, not all".to_string(),
        ]
    }
    fn cases(&self, tier: Tier) -> u64 {
        match tier {
            Tier::Quick => 300_000,
            Tier::Thorough => 5_000_000,
        }
    }
    fn required_counters(&self) -> Vec<&'static str> {
        vec!["direct_searches_compared", "in_situ_searches_checked", "in_situ_item_sequences_matched", "direct_err_expected", "limit_equals_solution"]
    }

    fn run_case(&self, index: u64, seed: u64, tier: Tier, rep: &mut CaseReport) {
        let mut rng = Rng::new(seed);
        match index % 3 {
            0 => direct(&mut rng, rep),
            1 => in_situ_uni(&mut rng, tier, rep),
            _ => in_situ_ros(&mut rng, index, rep),
        }
    }
}

/// Low-bandwidth reservation + large constant demand: the trait-default service_time needs
/// thousands of jump-ahead iterations here.
fn direct_low_bandwidth(rng: &mut Rng, rep: &mut CaseReport) {
    let p = rng.range(60, 200);
    let sup = if rng.chance(1, 2) { Sup::Periodic { q: 1, p } } else { Sup::Constrained { q: 1, d: rng.range(1, p), p } };
    let supply = build_supply(sup, true);
    let demand = rng.range(500, 2500);
    let ps = |t: u64| u64::from(supply.provided_service(Duration::from(t)));
    let wl = |_r: u64| demand;
    let big = demand * p + 4 * p;
    let sol = least_solution(&ps, &wl, 0, big);
    rep.sample = Some(jobj! {"supply" => sup.to_json(), "default_service_time" => true, "constant_workload" => demand, "least_solution" => sol});
    for lim in [big, sol.unwrap_or(big).saturating_sub(1).max(1)] {
        let expected = expected_of(sol.filter(|r| *r <= lim), 0, lim);
        let workload = |_r: Duration| Service::from(demand);
        let got = crate::framework::guard_fuel(50_000_000, || Outcome::from(fixed_point::search_with_offset(&supply, Offset::from(0), Duration::from(lim), &workload)));
        rep.count("direct_searches_compared", 1);
        rep.count("direct_low_bandwidth_searches", 1);
        match got {
            Ok(g) if g == expected => {}
            Ok(g) => rep.violation(
                "C08 entry=search_with_offset kind=differs-from-linear-scan (low-bandwidth supply, trait-default service_time)".to_string(),
                jobj! {"supply" => sup.to_json(), "constant_workload" => demand, "limit" => lim, "library" => g.to_json(), "linear_scan" => expected.to_json()},
            ),
            Err(c) => rep.violation(format!("C08 entry=search_with_offset kind={} class={} (low-bandwidth supply)", c.kind, c.class()), c.to_json()),
        }
    }
}

fn direct(rng: &mut Rng, rep: &mut CaseReport) {
    if rng.chance(1, 400) {
        return direct_low_bandwidth(rng, rep);
    }
    let (sup, dflt) = gen_supply(rng);
    let supply = build_supply(sup, dflt);
    let (q, _, p) = sup.qdp();
    // workload: keep long-run slope around the supply's bandwidth so that both
    // convergence and divergence occur
    let nsteps = rng.usize(0, 4);
    let mut steps = vec![];
    for _ in 0..nsteps {
        let t = rng.log_range(1, 80);
        let c = match rng.range(0, 5) {
            0 => t, // slope 1: diverges on anything but an idle dedicated processor
            _ => rng.range(1, (t * q / p / (nsteps as u64).max(1)).max(1)),
        };
        steps.push((c, t, rng.range(0, 2 * t)));
    }
    let w = Staircase { base: if rng.chance(1, 3) { rng.range(0, 30) } else { 0 }, steps };
    let ps = |t: u64| u64::from(supply.provided_service(Duration::from(t)));
    let wl = |r: u64| w.eval(r);
    let st1 = u64::from(supply.service_time(Service::from(wl(1))));
    let offset = match rng.range(0, 3) {
        0 => 0,
        1 => st1,
        _ => rng.range(0, st1),
    };
    let big = 3000u64;
    let sol = least_solution(&ps, &wl, offset, big);
    let mut limits = vec![big];
    match sol {
        Some(r) => {
            if r >= 2 {
                limits.push(r - 1);
            }
            if r >= 1 {
                limits.push(r);
                rep.count("limit_equals_solution", 1);
            }
            limits.push(r + 1);
            limits.push(r + rng.range(2, 500));
            // "no limit": an Ok result never changes when the limit is raised, however far
            limits.push(*rng.pick(&[u64::MAX, u64::MAX - offset, u64::MAX / 2, 1 << 40]));
        }
        None => limits.push(rng.range(1, big)),
    }
    rep.sample = Some(jobj! {"supply" => sup.to_json(), "default_service_time" => dflt, "workload" => w.to_json(), "offset" => offset, "least_solution_below_3000" => sol});
    for lim in limits {
        let expected = expected_of(sol.filter(|r| *r <= lim), offset, lim);
        let workload = |r: Duration| Service::from(w.eval(u64::from(r)));
        let got = guard(|| {
            Outcome::from(fixed_point::search_with_offset(&supply, Offset::from(offset), Duration::from(lim), &workload))
        });
        rep.count("direct_searches_compared", 1);
        if expected.is_err() {
            rep.count("direct_err_expected", 1);
        }
        let detail = |got: Json| {
            jobj! {"supply" => sup.to_json(), "default_service_time" => dflt, "workload" => w.to_json(), "offset" => offset, "limit" => lim,
            "library" => got, "linear_scan" => expected.to_json()}
        };
        match got {
            Err(c) => rep.violation(
                format!("C08 entry=search_with_offset kind={} class={}", c.kind, c.class()),
                detail(c.to_json()),
            ),
            Ok(g) if g != expected => {
                let kind = match (&g, &expected) {
                    (Outcome::Ok(a), Outcome::Ok(b)) if a > b => "not-least-solution",
                    (Outcome::Ok(_), Outcome::Ok(_)) => "below-least-solution",
                    (Outcome::Ok(_), _) => "ok-although-no-solution-within-limit",
                    (_, Outcome::Ok(_)) => "err-although-solution-within-limit",
                    _ => "error-payload-differs",
                };
                rep.violation(format!("C08 entry=search_with_offset kind={}", kind), detail(g.to_json()));
            }
            Ok(_) => {
                let first_guess = st1.saturating_sub(offset);
                if expected.is_err() || sol.map_or(false, |r| r > first_guess.max(1) || r == lim) {
                    let mut wds = sup.words().to_vec();
                    wds.extend([dflt as u64, w.base, offset, lim]);
                    for (c, t, j) in &w.steps {
                        wds.extend([*c, *t, *j]);
                    }
                    rep.nontrivial_key(&wds);
                }
            }
        }
        if offset == 0 {
            // `search` = offset 0 (+ the library's own debug-only brute-force cross-check in the checked profile)
            let got = guard(|| Outcome::from(fixed_point::search(&supply, Duration::from(lim), workload)));
            rep.count("direct_searches_compared", 1);
            match got {
                Err(c) => rep.violation(format!("C08 entry=search kind={} class={}", c.kind, c.class()), detail(c.to_json())),
                Ok(g) if g != expected => rep.violation("C08 entry=search kind=differs-from-linear-scan".to_string(), detail(g.to_json())),
                _ => {}
            }
        }
    }
    // ---- max_response_time on generated sequences
    let n = rng.usize(0, 8);
    let seq: Vec<SearchResult> = (0..n)
        .map(|_| {
            if rng.chance(1, 5) {
                Err(SearchFailure::DivergenceLimitExceeded { offset: Offset::from(rng.range(0, 50)), limit: Duration::from(rng.range(1, 50)) })
            } else {
                Ok(Duration::from(rng.range(0, 40)))
            }
        })
        .collect();
    let expected: SearchResult = match seq.iter().find(|r| r.is_err()) {
        Some(e) => *e,
        None => Ok(seq.iter().map(|r| r.unwrap()).max().unwrap_or(Duration::from(0))),
    };
    let got = guard(|| fixed_point::max_response_time(seq.clone().into_iter()));
    rep.count("max_response_time_sequences_compared", 1);
    match got {
        Ok(g) if g == expected => {}
        Ok(g) => rep.violation(
            "C08 entry=max_response_time kind=not-first-error-else-maximum".to_string(),
            jobj! {"sequence" => Json::Arr(seq.iter().map(|r| Outcome::from(*r).to_json()).collect()), "library" => Outcome::from(g).to_json(), "expected" => Outcome::from(expected).to_json()},
        ),
        Err(c) => rep.violation(format!("C08 entry=max_response_time kind={} class={}", c.kind, c.class()), c.to_json()),
    }
}

#[derive(Default)]
pub struct InSitu {
    pub searches: u64,
    pub multi_iteration: u64,
    pub errs: u64,
    pub bad: Vec<(String, Json)>,
    pub items: Vec<Outcome>,
    pub rng_state: u64,
}

/// Install the H1/H2 observers; returns the shared record.
pub fn install_in_situ(seed: u64) -> Rc<RefCell<InSitu>> {
    let rec = Rc::new(RefCell::new(InSitu { rng_state: seed, ..Default::default() }));
    let r1 = rec.clone();
    hooks::set_search_observer(Some(Box::new(move |ev: &hooks::SearchEvent| {
        let mut rec = r1.borrow_mut();
        rec.searches += 1;
        let offset = u64::from(ev.offset);
        let limit = u64::from(ev.limit);
        let ps = |t: u64| u64::from((ev.provided_service)(Duration::from(t)));
        let wl = |r: u64| u64::from((ev.workload)(Duration::from(r)));
        let holds = |r: u64| ps(offset + r) >= wl(r.max(1));
        // candidates to examine
        let res = Outcome::from(ev.result);
        let check = std::panic::catch_unwind(std::panic::AssertUnwindSafe(|| -> Option<(String, Json)> {
            match res {
                Outcome::Ok(r) => {
                    if r > limit {
                        return Some(("ok-above-limit".into(), jobj! {"offset"=>offset,"limit"=>limit,"result"=>r}));
                    }
                    if !holds(r) {
                        return Some(("result-does-not-satisfy-inequality".into(), jobj! {"offset"=>offset,"limit"=>limit,"result"=>r,
                            "provided_service(offset+r)"=>ps(offset+r),"workload(max(r,1))"=>wl(r.max(1))}));
                    }
                    let mut rs = Rng::new(rec.rng_state ^ r);
                    let cands: Vec<u64> = if r <= 3000 { (0..r).collect() } else {
                        let mut v: Vec<u64> = (r - 1500..r).collect();
                        v.extend((0..1500).map(|_| rs.range(0, r - 1)));
                        v
                    };
                    for c in cands {
                        if holds(c) {
                            return Some(("not-least-solution".into(), jobj! {"offset"=>offset,"limit"=>limit,"result"=>r,"smaller_solution"=>c}));
                        }
                    }
                    None
                }
                Outcome::Diverged(o, l) => {
                    if o != offset || l != limit {
                        return Some(("error-payload-differs".into(), jobj! {"offset"=>offset,"limit"=>limit,"payload_offset"=>o,"payload_limit"=>l}));
                    }
                    let mut rs = Rng::new(rec.rng_state ^ limit);
                    let cands: Vec<u64> = if limit <= 3000 { (0..=limit).collect() } else {
                        let mut v: Vec<u64> = (limit - 1500..=limit).collect();
                        v.extend((0..1500).map(|_| rs.range(0, limit)));
                        v
                    };
                    for c in cands {
                        if holds(c) {
                            return Some(("err-although-solution-within-limit".into(), jobj! {"offset"=>offset,"limit"=>limit,"solution"=>c}));
                        }
                    }
                    None
                }
                Outcome::AssumptionViolated => None,
            }
        }));
        match (&res, check) {
            (_, Ok(Some(b))) => rec.bad.push(b),
            (_, Err(_)) => {} // the rhs closure itself panicked at an un-iterated point: not a search defect
            (Outcome::Ok(r), _) => {
                // did the search need more than one iteration?
                let first = u64::from((ev.service_time)(Service::from(wl(1)))).saturating_sub(offset);
                if *r > first.max(1) {
                    rec.multi_iteration += 1;
                }
            }
            (_, _) => rec.errs += 1,
        }
    })));
    let r2 = rec.clone();
    hooks::set_item_observer(Some(Box::new(move |item: &SearchResult| {
        r2.borrow_mut().items.push(Outcome::from(*item));
    })));
    rec
}

pub fn uninstall_in_situ() {
    hooks::set_search_observer(None);
    hooks::set_item_observer(None);
}

/// What `max_response_time` must return for the observed item sequence.
pub fn expected_from_items(items: &[Outcome]) -> Outcome {
    if let Some(e) = items.iter().find(|o| o.is_err()) {
        return e.clone();
    }
    Outcome::Ok(items.iter().filter_map(|o| o.ok()).max().unwrap_or(0))
}

pub fn report_in_situ(rep: &mut CaseReport, rec: &InSitu, what: &str, problem: Json, result: Option<&Outcome>, uses_max: bool) {
    rep.count("in_situ_searches_checked", rec.searches);
    rep.count("in_situ_searches_needing_several_iterations", rec.multi_iteration);
    rep.count("in_situ_searches_diverged", rec.errs);
    for (kind, d) in &rec.bad {
        rep.violation(
            format!("C08 entry=search_with_offset(in-situ) kind={}", kind),
            jobj! {"analysis" => what, "problem" => problem.clone(), "search" => d.clone()},
        );
    }
    if let (Some(res), true) = (result, uses_max) {
        // the busy-window search may fail before max_response_time is reached ('?'): then no items are seen
        if !(rec.items.is_empty() && res.is_err()) {
            rep.count("in_situ_item_sequences_matched", 1);
            let exp = expected_from_items(&rec.items);
            if &exp != res {
                rep.violation(
                    "C08 entry=max_response_time(in-situ) kind=return-value-is-not-first-error-else-maximum".to_string(),
                    jobj! {"analysis" => what, "problem" => problem, "items" => Json::Arr(rec.items.iter().map(|o| o.to_json()).collect()), "returned" => res.to_json()},
                );
            }
        }
    }
}

fn in_situ_uni(rng: &mut Rng, tier: Tier, rep: &mut CaseReport) {
    let limit = *rng.pick(&[30u64, 120, 500, 500, 2000]);
    let p = gen_problem(rng, tier, limit);
    if p.tua.arr.components().is_empty() && p.policy != Policy::FIFO {
        return;
    }
    rep.sample = Some(p.to_json());
    let rec = install_in_situ(rng.next_u64());
    let got = run_lib(&p);
    uninstall_in_situ();
    let rec = rec.borrow();
    let res = got.ok();
    // FIFO does not go through max_response_time; NP/LP results add the remaining cost per item already
    report_in_situ(rep, &rec, &p.name(), p.to_json(), res.as_ref(), p.policy != Policy::FIFO);
    if rec.multi_iteration > 0 || rec.errs > 0 {
        rep.nontrivial_key(&p.words());
    }
}

/// In-situ monitoring of the ROS 2 analyses: these call `search_with_offset` with offsets > 0 on
/// reservation supplies (incl. the trait-default `service_time`).
fn in_situ_ros(rng: &mut Rng, index: u64, rep: &mut CaseReport) {
    use crate::model::ros;
    let limit = *rng.pick(&[30u64, 120, 400, 1000]);
    let p = ros::gen_problem(rng, Some(((index / 3) % 6) as usize), limit);
    rep.sample = Some(p.to_json());
    let rec = install_in_situ(rng.next_u64());
    let got = ros::run_lib(&p);
    uninstall_in_situ();
    let rec = rec.borrow();
    let res = got.ok();
    // rr::rta_subchain does not go through max_response_time
    let uses_max = !matches!(p, ros::RosProblem::RR { .. });
    rep.count("in_situ_searches_checked[ros2]", rec.searches);
    report_in_situ(rep, &rec, p.name(), p.to_json(), res.as_ref(), uses_max);
    if rec.multi_iteration > 0 || rec.errs > 0 {
        rep.nontrivial_key(&p.words());
    }
}
