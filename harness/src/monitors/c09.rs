//! C09 — supply-bound functions are exact, `service_time` is the exact inverse.

use response_time_analysis::supply::SupplyBound;
use response_time_analysis::time::{Duration, Service};

use crate::framework::{guard, CaseReport, Monitor, Tier};
use crate::jobj;
use crate::oracle::sbf::{brute_sbf, joint_brute_sbf, DefaultInverse, SbfTable, Sup};
use crate::rng::Rng;

pub struct C09;

fn small_triples(pmax: u64) -> Vec<(u64, u64, u64)> {
    let mut v = vec![];
    for p in 1..=pmax {
        for d in 1..=p {
            for q in 1..=d {
                v.push((q, d, p));
            }
        }
    }
    v
}

/// Closed form of the minimum service in a window of length `delta` (the harness's own; compared with
/// the enumeration of all placements on every small case before it is used for huge parameters): nothing
/// during the longest blackout B = (P-Q) + (D-Q), then Q units in a row, then P-Q without service, ...
fn closed_sbf(q: u64, d: u64, p: u64, delta: u64) -> u128 {
    let b = (p - q) as u128 + (d - q) as u128;
    let delta = delta as u128;
    if delta <= b {
        return 0;
    }
    let y = delta - b;
    (y / p as u128) * q as u128 + (y % p as u128).min(q as u128)
}

/// Least t with closed_sbf(t) >= demand.
fn closed_inverse(q: u64, d: u64, p: u64, demand: u64) -> u128 {
    if demand == 0 {
        return 0;
    }
    let b = (p - q) as u128 + (d - q) as u128;
    let k = ((demand - 1) / q) as u128;
    b + k * p as u128 + (demand as u128 - k * q as u128)
}

/// Reservations with periods of 2^32 .. 2^45 slots: the library's values must equal the closed form
/// (validated on the small cases) at the structural points, for tiny and for huge windows / demands.
fn huge_reservation_case(rng: &mut Rng, rep: &mut CaseReport) {
    let p = (1u64 << rng.range(32, 45)) + rng.range(0, 1 << 20);
    let d = match rng.range(0, 2) {
        0 => p,
        1 => p - rng.range(0, p / 2),
        _ => rng.range(1, p),
    };
    let q = match rng.range(0, 4) {
        0 => d,
        1 => rng.range(1, 1000).min(d),
        2 => d - rng.range(0, 1000).min(d - 1),
        _ => rng.range(1, d),
    };
    rep.sample = Some(jobj! {"Q" => q, "D" => d, "P" => p, "huge" => true});
    rep.count("huge_reservations (period >= 2^32)", 1);
    let b = (p - q) + (d - q);
    let mut sups = vec![Sup::Constrained { q, d, p }];
    if d == p {
        sups.push(Sup::Periodic { q, p });
    }
    let mut deltas = vec![0, 1, 17, b, b + 1, b + q, b + q + 1, b + p, b + p + 1, b + p + q, 3 * p + 5];
    let mut demands = vec![0, 1, 2, 5, q, q + 1, 2 * q, 2 * q + 1, 3 * q + 7];
    for _ in 0..12 {
        deltas.push(rng.range(0, u32::MAX as u64));
        deltas.push(rng.range(0, 6 * p));
        deltas.push(b + rng.range(0, 3) * p + rng.range(0, q.min(u32::MAX as u64)));
        demands.push(rng.range(0, (u32::MAX as u64).min(5 * q)));
        demands.push(rng.range(0, 5 * q));
    }
    for sup in &sups {
        let kind = match sup {
            Sup::Periodic { .. } => "Periodic",
            _ => "Constrained",
        };
        let lib = sup.build();
        for dl in &deltas {
            let want = closed_sbf(q, d, p, *dl);
            match guard(|| u64::from(lib.provided_service(Duration::from(*dl)))) {
                Ok(got) => {
                    rep.count("huge_sbf_values_compared", 1);
                    if got as u128 != want {
                        rep.violation(
                            format!("C09 impl={} kind=provided_service-differs-from-minimum-over-placements (period >= 2^32)", kind),
                            jobj! {"Q"=>q,"D"=>d,"P"=>p,"delta"=>*dl,"provided_service"=>got,"min_over_placements"=>want as u64},
                        );
                        return;
                    }
                }
                Err(c) => {
                    rep.violation(format!("C09 impl={} kind={}-in-provided_service class={} (period >= 2^32)", kind, c.kind, c.class()), jobj! {"Q"=>q,"D"=>d,"P"=>p,"delta"=>*dl,"caught"=>c.to_json()});
                    return;
                }
            }
        }
        for dem in &demands {
            let want = closed_inverse(q, d, p, *dem);
            match guard(|| u64::from(lib.service_time(Service::from(*dem)))) {
                Ok(got) => {
                    rep.count("huge_service_time_values_compared", 1);
                    if got as u128 != want {
                        rep.violation(
                            format!("C09 impl={} kind=service_time-not-least-inverse variant=specialised (period >= 2^32)", kind),
                            jobj! {"Q"=>q,"D"=>d,"P"=>p,"demand"=>*dem,"service_time"=>got,"least_t_with_enough_service"=>want as u64},
                        );
                        return;
                    }
                }
                Err(c) => {
                    rep.violation(format!("C09 impl={} kind={}-in-service_time class={} (period >= 2^32)", kind, c.kind, c.class()), jobj! {"Q"=>q,"D"=>d,"P"=>p,"demand"=>*dem,"caught"=>c.to_json()});
                    return;
                }
            }
        }
        if q == p {
            // budget = period: a dedicated processor
            for dl in &deltas {
                if u64::from(lib.provided_service(Duration::from(*dl))) != *dl {
                    rep.violation("C09 kind=full-budget-reservation-differs-from-dedicated".to_string(), jobj! {"Q"=>q,"P"=>p,"delta"=>*dl});
                    return;
                }
            }
        }
    }
    if q < d || d < p {
        rep.nontrivial_key(&[q, d, p, 77]);
    }
}

fn pmax(tier: Tier) -> u64 {
    match tier {
        Tier::Quick => 6,
        Tier::Thorough => 9,
    }
}

impl Monitor for C09 {
    fn id(&self) -> &'static str {
        "C09"
    }
    fn rule(&self) -> String {
        "case = one reservation (Q,D,P). The first cases enumerate ALL 1<=Q<=D<=P<=Pmax (Pmax=6 quick, 9 thorough): for every window length up to 3P+2 the minimum service over all budget placements (every size-Q subset of the first D slots, independently per period; for P<=3 additionally the joint product over all periods) and all window starts is compared for equality with provided_service, for Constrained(Q,D,P) and, when D=P, Periodic(Q,P); service_time (specialised and trait-default) is compared with a linear scan. Remaining cases: random (Q,D,P) with P up to 2000 (thorough 20000), same checks on sampled window lengths plus random concrete placements. Non-trivial = (Q<D or D<P) and a compared window spans >= 2 periods; distinct = distinct (Q,D,P,kind).".to_string()
    }
    fn assumptions(&self) -> Vec<String> {
        vec![
            "reservation semantics as in DESIGN.md §2: exactly Q supply slots per period, all within the first D slots, positions arbitrary and independent between periods".to_string(),
            "for P > 9 the per-period minimum overlap is obtained by counting allowed slots outside the window instead of enumerating subsets (the two are compared on every small case)".to_string(),
        ]
    }
    fn cases(&self, tier: Tier) -> u64 {
        small_triples(pmax(tier)).len() as u64
            + match tier {
                Tier::Quick => 20_000,
                Tier::Thorough => 400_000,
            }
    }
    fn exhaustive(&self, _tier: Tier) -> bool {
        // the small-parameter part is complete, the large-parameter part is sampled
        false
    }
    fn required_counters(&self) -> Vec<&'static str> {
        vec!["sbf_values_compared", "service_time_values_compared", "placements_enumerated"]
    }

    fn unguarded_library_failure(&self, c: &crate::framework::Caught, rep: &mut CaseReport) -> bool {
        // this property's objects must answer every query: a library panic / runaway loop that surfaces
        // outside a guarded call (e.g. while the monitor inspects the shared cache) is a violation too
        rep.violation(
            format!("C09 kind=library-{}-outside-a-guarded-call class={}", c.kind, c.class()),
            crate::jobj! {"caught" => c.to_json(), "case" => rep.sample.clone()},
        );
        true
    }
    fn run_case(&self, index: u64, seed: u64, tier: Tier, rep: &mut CaseReport) {
        let mut rng = Rng::new(seed);
        let small = small_triples(pmax(tier));
        if (index as usize) >= small.len() && index % 8 == 7 {
            return huge_reservation_case(&mut rng, rep);
        }
        let (q, d, p, exhaustive) = if (index as usize) < small.len() {
            let (q, d, p) = small[index as usize];
            (q, d, p, true)
        } else {
            let pm = match tier {
                // (periods well beyond 4096 slots with budget 1: the trait-default service_time then needs
                // thousands of refinement rounds for a single unit of demand)
                Tier::Quick => 20_000,
                Tier::Thorough => 40_000,
            };
            let p = rng.log_range(1, pm);
            let d = match rng.range(0, 3) {
                0 => p,
                _ => rng.range(1, p),
            };
            let q = match rng.range(0, 4) {
                0 => d,
                1 => 1,
                _ => rng.range(1, d),
            };
            (q, d, p, false)
        };
        rep.sample = Some(jobj! {"Q" => q, "D" => d, "P" => p, "exhaustive_small_case" => exhaustive});
        rep.count("reservations", 1);

        let mut sups = vec![Sup::Constrained { q, d, p }];
        if d == p {
            sups.push(Sup::Periodic { q, p });
        }
        let hmax = 3 * p + 2;
        let deltas: Vec<u64> = if exhaustive || hmax <= 400 {
            (0..=hmax).collect()
        } else {
            let mut v: Vec<u64> = vec![0, 1, p - q, p - q + 1, 2 * (p - q), 2 * (p - q) + 1, p, p + 1, 2 * p, 2 * p + 1, hmax];
            v.extend([(p - q) + (d - q), (p - q) + (d - q) + 1, (p - q) + (d - q) + q, p + (d - q), p + (d - q) + 1]);
            for _ in 0..40 {
                v.push(rng.range(0, hmax));
            }
            v.sort_unstable();
            v.dedup();
            v
        };

        // oracle values
        let mut placements = 0u64;
        let oracle: Vec<u64> = deltas
            .iter()
            .map(|dl| brute_sbf(q, d, p, *dl, exhaustive, &mut placements))
            .collect();
        rep.count("placements_enumerated", placements);
        if exhaustive {
            // the counting shortcut used for large P must agree with enumeration
            let mut dummy = 0;
            for (i, dl) in deltas.iter().enumerate() {
                let c = brute_sbf(q, d, p, *dl, false, &mut dummy);
                if c != oracle[i] {
                    rep.inconclusive = Some(format!("oracle self-check failed: counting {} vs enumeration {} at Q={} D={} P={} delta={}", c, oracle[i], q, d, p, dl));
                    return;
                }
            }
            if p <= 3 {
                let mut joint = 0u64;
                for (i, dl) in deltas.iter().enumerate() {
                    let jv = joint_brute_sbf(q, d, p, *dl, &mut joint);
                    if jv != oracle[i] {
                        rep.inconclusive = Some(format!("oracle self-check failed: joint {} vs per-period {} at Q={} D={} P={} delta={}", jv, oracle[i], q, d, p, dl));
                        return;
                    }
                }
                rep.count("joint_placement_combinations_enumerated", joint);
            }
            // the closed form used for huge parameters agrees with the enumeration
            for (i, dl) in deltas.iter().enumerate() {
                if closed_sbf(q, d, p, *dl) != oracle[i] as u128 {
                    rep.inconclusive = Some(format!("oracle self-check failed: closed form {} vs enumeration {} at Q={} D={} P={} delta={}", closed_sbf(q, d, p, *dl), oracle[i], q, d, p, dl));
                    return;
                }
            }
            for dem in 0..=(*oracle.last().unwrap()) {
                let least = deltas.iter().zip(oracle.iter()).find(|(_, s)| **s >= dem).map(|(t, _)| *t).unwrap();
                if closed_inverse(q, d, p, dem) != least as u128 {
                    rep.inconclusive = Some(format!("oracle self-check failed: closed inverse {} vs scan {} at Q={} D={} P={} demand={}", closed_inverse(q, d, p, dem), least, q, d, p, dem));
                    return;
                }
            }
            rep.count("closed_form_self_checks", 1);
            // the single canonical placement used by C07's evaluator attains the minimum
            let canon = SbfTable::canonical(Sup::Constrained { q, d, p }, hmax);
            for (i, dl) in deltas.iter().enumerate() {
                if canon.sbf(*dl) != oracle[i] {
                    rep.inconclusive = Some(format!("oracle self-check failed: canonical placement {} vs brute {} at Q={} D={} P={} delta={}", canon.sbf(*dl), oracle[i], q, d, p, dl));
                    return;
                }
            }
            rep.count("canonical_placement_cross_checks", deltas.len() as u64);
        }

        for sup in &sups {
            let kind = match sup {
                Sup::Periodic { .. } => "Periodic",
                Sup::Constrained { .. } => "Constrained",
                Sup::Dedicated => "Dedicated",
            };
            let lib = sup.build();
            let dflt = DefaultInverse(sup.build());
            // ---- provided_service == brute minimum
            let mut vals: Vec<u64> = Vec::with_capacity(deltas.len());
            for (i, dl) in deltas.iter().enumerate() {
                let got = match guard(|| u64::from(lib.provided_service(Duration::from(*dl)))) {
                    Ok(v) => v,
                    Err(c) => {
                        rep.violation(
                            format!("C09 impl={} kind=panic-in-provided_service class={}", kind, c.class()),
                            jobj! {"Q"=>q,"D"=>d,"P"=>p,"delta"=>*dl,"caught"=>c.to_json()},
                        );
                        return;
                    }
                };
                vals.push(got);
                rep.count("sbf_values_compared", 1);
                if got != oracle[i] {
                    let dir = if got > oracle[i] { "overestimates" } else { "underestimates" };
                    rep.violation(
                        format!("C09 impl={} kind=provided_service-{}-minimum-over-placements", kind, dir),
                        jobj! {"Q"=>q,"D"=>d,"P"=>p,"delta"=>*dl,"provided_service"=>got,"min_over_placements"=>oracle[i]},
                    );
                }
                if *dl > p && (q < d || d < p) {
                    rep.nontrivial_key(&[q, d, p, kind.len() as u64]);
                }
            }
            // ---- structure (on consecutive deltas only)
            if vals.first().copied() != Some(0) {
                rep.violation(
                    format!("C09 impl={} kind=sbf-nonzero-at-zero", kind),
                    jobj! {"Q"=>q,"D"=>d,"P"=>p,"provided_service(0)"=>vals[0]},
                );
            }
            for i in 1..deltas.len() {
                if vals[i] < vals[i - 1] {
                    rep.violation(
                        format!("C09 impl={} kind=sbf-decreases", kind),
                        jobj! {"Q"=>q,"D"=>d,"P"=>p,"delta"=>deltas[i],"value"=>vals[i],"previous_delta"=>deltas[i-1],"previous"=>vals[i-1]},
                    );
                }
                if vals[i] - vals[i - 1].min(vals[i]) > deltas[i] - deltas[i - 1] {
                    rep.violation(
                        format!("C09 impl={} kind=sbf-grows-faster-than-time", kind),
                        jobj! {"Q"=>q,"D"=>d,"P"=>p,"delta"=>deltas[i],"value"=>vals[i],"previous_delta"=>deltas[i-1],"previous"=>vals[i-1]},
                    );
                }
            }
            // ---- service_time is the exact inverse (linear scan over the library's own sbf,
            //      which was just compared with the oracle)
            let full: Vec<u64> = if deltas.len() as u64 == hmax + 1 {
                vals.clone()
            } else {
                (0..=hmax).map(|t| u64::from(lib.provided_service(Duration::from(t)))).collect()
            };
            let dmax = *full.last().unwrap();
            let demands: Vec<u64> = if dmax <= 300 {
                (0..=dmax).collect()
            } else {
                let mut v = vec![0, 1, q, q + 1, 2 * q, 2 * q + 1, dmax];
                for _ in 0..30 {
                    v.push(rng.range(0, dmax));
                }
                v.sort_unstable();
                v.dedup();
                v.retain(|x| *x <= dmax);
                v
            };
            for dem in demands {
                let want = full.iter().position(|s| *s >= dem).unwrap() as u64;
                for (which, s) in [("specialised", &lib as &dyn SupplyBound), ("trait-default", &dflt as &dyn SupplyBound)] {
                    match guard(|| u64::from(s.service_time(Service::from(dem)))) {
                        Ok(got) => {
                            rep.count("service_time_values_compared", 1);
                            if got != want {
                                rep.violation(
                                    format!("C09 impl={} kind=service_time-not-least-inverse variant={}", kind, which),
                                    jobj! {"Q"=>q,"D"=>d,"P"=>p,"demand"=>dem,"service_time"=>got,"least_t_with_enough_service"=>want},
                                );
                            }
                        }
                        Err(c) => rep.violation(
                            format!("C09 impl={} kind={}-in-service_time variant={} class={}", kind, c.kind, which, c.class()),
                            jobj! {"Q"=>q,"D"=>d,"P"=>p,"demand"=>dem,"caught"=>c.to_json()},
                        ),
                    }
                }
            }
            // ---- very long windows and very large demands (up to ~2^60): every additional full period adds
            //      exactly Q units of service to ANY window, hence sbf(d0 + k P) = sbf(d0) + k Q for d0 >= P and
            //      service_time(s0 + k Q) = service_time(s0) + k P for s0 >= 1; the small-argument values on the
            //      right-hand sides were just compared with the brute-force minimum / linear scan
            for _ in 0..6 {
                let k = rng.log_range(1u64 << 20, (1u64 << 60) / p.max(1)).max(1);
                let d0 = rng.range(p, 2 * p + 1);
                let base = match full.get(d0 as usize) {
                    Some(b) => *b,
                    None => continue,
                };
                match guard(|| u64::from(lib.provided_service(Duration::from(d0 + k * p)))) {
                    Ok(got) => {
                        rep.count("very_long_windows_checked", 1);
                        if got != base + k * q {
                            rep.violation(
                                format!("C09 impl={} kind=provided_service-breaks-period-structure (very long window)", kind),
                                jobj! {"Q"=>q,"D"=>d,"P"=>p,"delta0"=>d0,"k_periods"=>k,"provided_service(delta0 + k P)"=>got,"provided_service(delta0) + k Q"=>base + k * q},
                            );
                        }
                    }
                    Err(c) => rep.violation(
                        format!("C09 impl={} kind={}-in-provided_service class={} (very long window)", kind, c.kind, c.class()),
                        jobj! {"Q"=>q,"D"=>d,"P"=>p,"delta"=>d0 + k * p,"caught"=>c.to_json()},
                    ),
                }
                let s0 = rng.range(1, q.max(1) * 2);
                let t0 = u64::from(lib.service_time(Service::from(s0)));
                match guard(|| u64::from(lib.service_time(Service::from(s0 + k * q)))) {
                    Ok(got) => {
                        rep.count("very_large_demands_checked", 1);
                        if got != t0 + k * p {
                            rep.violation(
                                format!("C09 impl={} kind=service_time-breaks-period-structure (very large demand)", kind),
                                jobj! {"Q"=>q,"D"=>d,"P"=>p,"demand0"=>s0,"k_periods"=>k,"service_time(demand0 + k Q)"=>got,"service_time(demand0) + k P"=>t0 + k * p},
                            );
                        }
                    }
                    Err(c) => rep.violation(
                        format!("C09 impl={} kind={}-in-service_time class={} (very large demand)", kind, c.kind, c.class()),
                        jobj! {"Q"=>q,"D"=>d,"P"=>p,"demand"=>s0 + k * q,"caught"=>c.to_json()},
                    ),
                }
            }
            // ---- concrete random placements never deliver less than promised
            let periods = 5u64;
            for _ in 0..(if exhaustive { 4 } else { 8 }) {
                let mut tl = vec![false; (periods * p) as usize];
                for k in 0..periods {
                    let mut slots: Vec<u64> = (0..d).collect();
                    match rng.range(0, 3) {
                        0 => {}                // earliest
                        1 => slots.reverse(),  // latest
                        _ => rng.shuffle(&mut slots),
                    }
                    for s in slots.iter().take(q as usize) {
                        tl[(k * p + *s) as usize] = true;
                    }
                }
                let mut prefix = vec![0u64; tl.len() + 1];
                for i in 0..tl.len() {
                    prefix[i + 1] = prefix[i] + tl[i] as u64;
                }
                for _ in 0..20 {
                    let s = rng.range(0, p - 1 + p);
                    let dl = rng.range(0, (periods * p - s).min(hmax));
                    let served = prefix[(s + dl) as usize] - prefix[s as usize];
                    let promised = u64::from(lib.provided_service(Duration::from(dl)));
                    rep.count("concrete_windows_checked", 1);
                    if served < promised {
                        rep.violation(
                            format!("C09 impl={} kind=concrete-placement-delivers-less-than-provided_service", kind),
                            jobj! {"Q"=>q,"D"=>d,"P"=>p,"window_start"=>s,"delta"=>dl,"served"=>served,"provided_service"=>promised,
                                   "supply_slots"=> (0..tl.len() as u64).filter(|i| tl[*i as usize]).collect::<Vec<u64>>()},
                        );
                    }
                }
            }
        }

        // ---- equivalences
        if d == p {
            let a = Sup::Constrained { q, d, p }.build();
            let b = Sup::Periodic { q, p }.build();
            for dl in &deltas {
                rep.count("equivalence_points_compared", 1);
                let (x, y) = (u64::from(a.provided_service(Duration::from(*dl))), u64::from(b.provided_service(Duration::from(*dl))));
                if x != y {
                    rep.violation(
                        "C09 kind=constrained-with-deadline-eq-period-differs-from-periodic",
                        jobj! {"Q"=>q,"P"=>p,"delta"=>*dl,"constrained"=>x,"periodic"=>y},
                    );
                }
            }
        }
        if q == p {
            let ded = Sup::Dedicated.build();
            for sup in &sups {
                let s = sup.build();
                for dl in &deltas {
                    rep.count("equivalence_points_compared", 1);
                    let (x, y) = (u64::from(s.provided_service(Duration::from(*dl))), u64::from(ded.provided_service(Duration::from(*dl))));
                    let (sx, sy) = (u64::from(s.service_time(Service::from(*dl))), u64::from(ded.service_time(Service::from(*dl))));
                    if x != y || sx != sy || y != *dl {
                        rep.violation(
                            "C09 kind=full-budget-reservation-differs-from-dedicated",
                            jobj! {"Q"=>q,"P"=>p,"delta"=>*dl,"reservation_sbf"=>x,"dedicated_sbf"=>y,"reservation_service_time"=>sx,"dedicated_service_time"=>sy},
                        );
                    }
                }
            }
        }
    }
}
