//! C18 — fully preemptive FP, non-preemptive FP and FIFO bounds are attained.
//!
//! For systems whose arrival curves are exact, the critical-instant schedule
//! (all tasks released synchronously at maximal rate, the longest lower-
//! priority job started one slot earlier, all jobs at WCET, ties against the
//! analysed task) is executed by the scheduler model; the largest response
//! time of the analysed task in it must EQUAL the returned bound. If it does
//! not, a randomised neighbourhood of schedules is searched as well before
//! the case is reported.

use crate::framework::{CaseReport, Monitor, Tier};
use crate::jobj;
use crate::model::uni::{analysis_name, mean_separation, run_lib, Outcome, Policy, Preempt, UniProblem};
use crate::monitors::safety_uni::gen_system;
use crate::rng::Rng;
use crate::sim::uni::{make_plan, plan_to_json, schedule_to_json, simulate, validate, Pattern, T0_MARGIN};

pub struct C18;

impl Monitor for C18 {
    fn id(&self) -> &'static str {
        "C18"
    }
    fn rule(&self) -> String {
        "case = one random task system with exact arrival models only (Periodic, Sporadic with jitter, extrapolating super-additive delta-min curves, jitter propagation and sums of those); for fully preemptive FP, non-preemptive FP (every priority level) and FIFO with Ok(R): the critical-instant schedules are executed and validated, and the largest observed response time of the analysed task must equal R (witness found); otherwise 60 randomised schedules are tried. Non-trivial = Ok and (>= 1 interfering/blocking task or the busy window holds >= 2 jobs of the analysed task, i.e. R > WCET); distinct = distinct (system, analysis, task).".to_string()
    }
    fn assumptions(&self) -> Vec<String> {
        vec![
            "the witness is searched among critical-instant schedules and a random neighbourhood; 'no witness found' is reported as a violation because these analyses are exact for exact curves and the critical-instant family attained the bound in every analysable case on the unchanged tree".to_string(),
            "a generated witness is accepted only after the offline validator confirmed that it is a legal schedule".to_string(),
        ]
    }
    fn cases(&self, tier: Tier) -> u64 {
        match tier {
            Tier::Quick => 20_000,
            Tier::Thorough => 300_000,
        }
    }
    fn required_counters(&self) -> Vec<&'static str> {
        vec!["witness_found", "schedules_validated"]
    }

    fn run_case(&self, _index: u64, seed: u64, tier: Tier, rep: &mut CaseReport) {
        let mut rng = Rng::new(seed);
        if _index % 32 == 31 {
            // exactness against the maximum over ALL schedules of a tiny sporadic system
            let sys = crate::monitors::safety_uni::gen_tiny(&mut rng);
            rep.sample = Some(jobj! {"exhaustive_small_scope" => true, "tasks" => sys.to_json()});
            for (policy, pre) in [(Policy::FP, Preempt::Full), (Policy::FP, Preempt::Non), (Policy::FIFO, Preempt::Non)] {
                crate::monitors::safety_uni::exhaustive_check("C18", &sys, policy, pre, rep, true);
            }
            return;
        }
        let sys = gen_system(&mut rng, tier, true, false);
        let limit = 4000;
        rep.sample = Some(jobj! {"limit" => limit, "tasks" => sys.to_json()});
        let n = sys.tasks.len();
        for (policy, pre) in [(Policy::FP, Preempt::Full), (Policy::FP, Preempt::Non), (Policy::FIFO, Preempt::Non)] {
            let name = analysis_name(policy, pre);
            let tuas: Vec<usize> = if policy == Policy::FIFO { vec![0] } else { (0..n).collect() };
            for i in tuas {
                let p = UniProblem::from_system(&sys, policy, pre, i, limit);
                let r = match run_lib(&p) {
                    Ok(Outcome::Ok(r)) => r,
                    _ => {
                        rep.count("analyses_not_ok", 1);
                        continue;
                    }
                };
                rep.count("bounds_examined", 1);
                let maxsep = sys.tasks.iter().map(|t| mean_separation(&t.arr)).max().unwrap();
                let jmax = sys.tasks.iter().map(|t| t.arr.max_jitter()).max().unwrap();
                // the maximum may be attained late in the busy window: simulate the whole busy window
                // (its length L is obtained by scanning the total demand, black box)
                let busy = {
                    let tb = crate::oracle::uni_eq::Tables::new(&p, limit + 2);
                    let total = |x: u64| -> u64 { tb.others.iter().map(|t| t[x as usize]).sum::<u64>() + if policy == Policy::FIFO { 0 } else { tb.tua[x as usize] + p.blocking } };
                    (1..=limit).find(|x| total(*x) <= *x)
                };
                let Some(busy) = busy else { continue };
                if busy > 1400 {
                    rep.count("skipped_busy_window_longer_than_1400", 1);
                    continue;
                }
                let horizon = (busy + 3 * r + 2 * maxsep + 10).clamp(40, 2000);
                let cap = jmax + T0_MARGIN + horizon + 2 * r + 400;
                // critical-instant family
                let mut pats: Vec<(Pattern, usize)> = vec![];
                let measured: Vec<usize> = if policy == Policy::FIFO { (0..n).collect() } else { vec![i] };
                for m in &measured {
                    pats.push((Pattern::Synchronous, *m));
                }
                if policy == Policy::FP && pre == Preempt::Non {
                    let mut bl: Vec<usize> = (0..n).filter(|b| sys.tasks[*b].prio > sys.tasks[i].prio).collect();
                    bl.sort_by_key(|b| std::cmp::Reverse(sys.tasks[*b].wcet));
                    for b in bl.into_iter().take(2) {
                        pats.push((Pattern::Blocked { blocker: b }, i));
                    }
                }
                let n_canon = pats.len();
                for _ in 0..60 {
                    pats.push((Pattern::Random, *rng.pick(&measured)));
                }
                let mut best = 0u64;
                let mut found = false;
                let mut last = None;
                for (k, (pat, tua)) in pats.iter().enumerate() {
                    let plan = make_plan(&sys, pre, *pat, *tua, horizon, &mut rng);
                    let res = simulate(&sys, policy, pre, &plan, cap);
                    let rts = match validate(&sys, policy, pre, &plan, &res.schedule) {
                        Ok(x) => x,
                        Err(why) => {
                            rep.inconclusive = Some(format!("validator rejected the harness's own schedule ({} {:?}): {}", name, pat, why));
                            return;
                        }
                    };
                    rep.count("schedules_validated", 1);
                    for m in &measured {
                        for rt in rts[*m].iter().flatten() {
                            best = best.max(*rt);
                        }
                    }
                    if k < n_canon {
                        last = Some((plan, res));
                    }
                    if best >= r {
                        found = best == r;
                        if k < n_canon {
                            rep.count("witness_is_critical_instant_schedule", 1);
                        } else {
                            rep.count("witness_needed_random_search", 1);
                        }
                        break;
                    }
                }
                if found {
                    rep.count("witness_found", 1);
                    let interfering = p.others.len() + (p.blocking > 0) as usize;
                    if (policy == Policy::FIFO && n >= 2) || interfering >= 1 || r > sys.tasks[i].wcet {
                        let mut w = sys.words();
                        w.extend([policy as u64, pre as u64, i as u64]);
                        rep.nontrivial_key(&w);
                    }
                } else if best > r {
                    // that is C01/C03's finding (unsafe bound); it also means "not equal"
                    rep.count("bound_exceeded (reported by C01/C03)", 1);
                } else {
                    let (plan, res) = last.unwrap();
                    // for triage: which offset attains the maximum according to the naive evaluator
                    let tb = crate::oracle::uni_eq::Tables::new(&p, crate::oracle::uni_eq::table_size(&p, 600));
                    let ev = crate::oracle::uni_eq::evaluate(&p, &tb, 600);
                    let truncated = plan.comp_releases.iter().flatten().any(|c| c.len() >= 2990);
                    if truncated {
                        rep.count("skipped_dense_sequence_truncated_by_harness_cap", 1);
                        continue;
                    }
                    rep.violation(
                        format!("C18 analysis={} kind=bound-not-attained", name),
                        jobj! {"analysis" => &name, "tasks" => sys.to_json(), "task_under_analysis" => i, "bound" => r,
                        "largest_response_time_found" => best, "schedules_tried" => pats.len(),
                        "naive_evaluation" => ev.outcome.to_json(), "busy_window" => ev.l, "offset_attaining_maximum" => ev.argmax,
                        "last_critical_instant_plan" => plan_to_json(&plan),
                        "last_critical_instant_schedule_rle" => schedule_to_json(&res.schedule)},
                    );
                }
            }
        }
    }
}
