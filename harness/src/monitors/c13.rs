//! C13 — curve extrapolation is conservative, only tightens, and is invisible as a cache.

use response_time_analysis::arrival::{self, ArrivalBound};
use response_time_analysis::time::Duration;

use crate::framework::{guard, CaseReport, Monitor, Tier};
use crate::jobj;
use crate::json::Json;
use crate::model::arr::{close_superadditive, gen_dmin, Arr, Base, Comp, SeqMode};
use crate::monitors::c10::table;
use crate::rng::Rng;

pub struct C13;

/// eta(delta) from a (sufficiently long) closed delta-min vector: the largest
/// n with dmin(n) < delta (dmin(0) = dmin(1) = 0).
fn eta(closed: &[u64], delta: u64) -> u64 {
    if delta == 0 {
        return 0;
    }
    let mut n = 1;
    for (i, d) in closed.iter().enumerate() {
        if *d < delta {
            n = i as u64 + 2;
        } else {
            break;
        }
    }
    n
}

#[derive(Clone, Debug)]
enum Op {
    Query { clone: usize, delta: u64 },
    JitterQuery { clone: usize, jitter: u64, delta: u64 },
    NewIter { clone: usize },
    Next { iter: usize },
    Clone { clone: usize },
    DropClone { clone: usize },
    DropIter { iter: usize },
}

impl Op {
    fn to_json(&self) -> Json {
        match self {
            Op::Query { clone, delta } => jobj! {"op"=>"number_arrivals","clone"=>*clone,"delta"=>*delta},
            Op::JitterQuery { clone, jitter, delta } => jobj! {"op"=>"clone_with_jitter.number_arrivals","clone"=>*clone,"jitter"=>*jitter,"delta"=>*delta},
            Op::NewIter { clone } => jobj! {"op"=>"steps_iter","clone"=>*clone},
            Op::Next { iter } => jobj! {"op"=>"next","iter"=>*iter},
            Op::Clone { clone } => jobj! {"op"=>"clone","clone"=>*clone},
            Op::DropClone { clone } => jobj! {"op"=>"drop","clone"=>*clone},
            Op::DropIter { iter } => jobj! {"op"=>"drop_iter","iter"=>*iter},
        }
    }
}

struct Live {
    ptr: *mut arrival::ExtrapolatingCurve,
    alive: bool,
    iters: usize,
}

/// Run one query history; returns violations (kind, detail) and statistics.
fn run_history(dmin: &[u64], ops: &[Op], rep: &mut CaseReport) -> Vec<(String, Json)> {
    let mut bad: Vec<(String, Json)> = vec![];
    let maxd = ops
        .iter()
        .map(|o| match o {
            Op::Query { delta, .. } => *delta,
            Op::JitterQuery { delta, jitter, .. } => delta + jitter,
            _ => 0,
        })
        .max()
        .unwrap_or(0);
    let nexts = ops.iter().filter(|o| matches!(o, Op::Next { .. })).count();
    let can_extrapolate = dmin.len() >= 2;
    // independent reference: closure far enough for every question in the history
    // (plateaus make one `next` advance several entries, hence the generous count)
    let closed: Vec<u64> = if can_extrapolate {
        let mut c = close_superadditive(dmin, nexts + dmin.len() + 4, maxd + 2, 8000);
        // one more distinct distance per `next`
        let mut distinct = c.iter().collect::<std::collections::BTreeSet<_>>().len();
        while distinct < nexts + 3 && c.len() < 8000 {
            let l = c.len();
            c = close_superadditive(dmin, l + 8, 0, 8000);
            distinct = c.iter().collect::<std::collections::BTreeSet<_>>().len();
        }
        // and a margin of one full plateau beyond, because the cache may run ahead by the entries
        // sharing the last distance
        let l = c.len();
        close_superadditive(dmin, l + 2 * dmin.len() + 8, 0, 8000)
    } else {
        vec![]
    };
    let expected_eta = |delta: u64| -> u64 {
        if can_extrapolate {
            eta(&closed, delta)
        } else if delta == 0 {
            0
        } else {
            // single distance: the periodic process it implies
            (delta + dmin[0] - 1) / dmin[0].max(1)
        }
    };
    // expected step sequence: 1, then dmin'(n)+1 for strictly increasing distances
    let expected_steps: Vec<u64> = if can_extrapolate {
        let mut v = vec![1u64];
        for d in &closed {
            if d + 1 > *v.last().unwrap() {
                v.push(d + 1);
            }
        }
        v
    } else {
        (0..(nexts as u64 + 2)).map(|k| k * dmin[0] + 1).collect()
    };

    let base = arrival::ExtrapolatingCurve::new(Arr::build_curve(dmin));
    let mut clones: Vec<Live> = vec![Live { ptr: Box::into_raw(Box::new(base)), alive: true, iters: 0 }];
    // (iterator, owning clone, position)
    let mut iters: Vec<Option<(Box<dyn Iterator<Item = Duration>>, usize, usize)>> = vec![];
    let mut last_cache: Option<(usize, Vec<u64>)> = None;
    let mut cache_lengths = std::collections::BTreeSet::new();

    for (k, op) in ops.iter().enumerate() {
        let r = guard(|| -> Option<(String, Json)> {
            match op {
                Op::Query { clone, delta } => {
                    let c = unsafe { &*clones[*clone].ptr };
                    let got = c.number_arrivals(Duration::from(*delta)) as u64;
                    let fresh = arrival::ExtrapolatingCurve::new(Arr::build_curve(dmin)).number_arrivals(Duration::from(*delta)) as u64;
                    let want = expected_eta(*delta);
                    if got != fresh {
                        return Some(("answer-depends-on-query-history".into(), jobj! {"op_index"=>k,"delta"=>*delta,"answer"=>got,"fresh_curve_answer"=>fresh}));
                    }
                    if got != want {
                        return Some(("number_arrivals-differs-from-superadditive-closure".into(), jobj! {"op_index"=>k,"delta"=>*delta,"answer"=>got,"closure"=>want}));
                    }
                    None
                }
                Op::JitterQuery { clone, jitter, delta } => {
                    let c = unsafe { &*clones[*clone].ptr };
                    let j = c.clone_with_jitter(Duration::from(*jitter));
                    let got = j.number_arrivals(Duration::from(*delta)) as u64;
                    let want = if *delta == 0 { 0 } else { expected_eta(*delta + *jitter) };
                    if got != want {
                        return Some(("jittered-clone-differs-from-superadditive-closure".into(), jobj! {"op_index"=>k,"delta"=>*delta,"jitter"=>*jitter,"answer"=>got,"closure"=>want}));
                    }
                    None
                }
                Op::NewIter { clone } => {
                    let c: &'static arrival::ExtrapolatingCurve = unsafe { &*clones[*clone].ptr };
                    iters.push(Some((c.steps_iter(), *clone, 0)));
                    clones[*clone].iters += 1;
                    None
                }
                Op::Next { iter } => {
                    let (it, _, pos) = iters[*iter].as_mut().unwrap();
                    let got = it.next().map(u64::from);
                    let want = expected_steps.get(*pos).copied();
                    *pos += 1;
                    if got != want {
                        return Some(("steps_iter-item-differs-from-superadditive-closure".into(), jobj! {"op_index"=>k,"position"=>*pos-1,"item"=>got,"closure"=>want}));
                    }
                    None
                }
                Op::Clone { clone } => {
                    let c = unsafe { &*clones[*clone].ptr };
                    clones.push(Live { ptr: Box::into_raw(Box::new(c.clone())), alive: true, iters: 0 });
                    None
                }
                Op::DropClone { clone } => {
                    let l = &mut clones[*clone];
                    l.alive = false;
                    drop(unsafe { Box::from_raw(l.ptr) });
                    None
                }
                Op::DropIter { iter } => {
                    let (_, owner, _) = iters[*iter].take().unwrap();
                    clones[owner].iters -= 1;
                    None
                }
            }
        });
        match r {
            Err(c) => {
                bad.push((format!("{}-during-history class={}", c.kind, c.class()), jobj! {"op_index"=>k,"op"=>op.to_json(),"caught"=>c.to_json()}));
                break;
            }
            Ok(Some(b)) => {
                bad.push(b);
                break;
            }
            Ok(None) => {}
        }
        rep.count("history_operations", 1);
        // ---- hook H4: the shared cache only grows by appending; all clones share it
        let mut id = None;
        for l in clones.iter().filter(|l| l.alive) {
            let (ptr, content) = unsafe { &*l.ptr }.verif_cache();
            match &id {
                None => id = Some((ptr, content)),
                Some((p0, c0)) => {
                    if *p0 != ptr || *c0 != content {
                        bad.push(("clones-do-not-share-one-cache".into(), jobj! {"op_index"=>k}));
                    }
                }
            }
        }
        if let Some((ptr, content)) = id {
            if let Some((p_old, c_old)) = &last_cache {
                if *p_old != ptr || content.len() < c_old.len() || content[..c_old.len()] != c_old[..] {
                    bad.push(("cache-not-append-only".into(), jobj! {"op_index"=>k,"before"=>c_old,"after"=>&content}));
                }
            }
            if can_extrapolate && content.len() > closed.len() {
                bad.push(("harness-closure-too-short".into(), jobj! {"op_index"=>k,"cache_len"=>content.len(),"closure_len"=>closed.len()}));
            } else if can_extrapolate && content[..] != closed[..content.len()] {
                bad.push(("cache-content-differs-from-superadditive-closure".into(), jobj! {"op_index"=>k,"cache"=>&content,"closure"=>&closed[..content.len().min(closed.len())]}));
            }
            rep.count("cache_snapshots_checked", 1);
            cache_lengths.insert(content.len());
            last_cache = Some((ptr, content));
        }
        if !bad.is_empty() {
            break;
        }
    }
    rep.count("distinct_cache_lengths_seen", cache_lengths.len() as u64);
    // tear down in a sound order: iterators first, then the clones they borrow from
    iters.clear();
    for l in clones.iter_mut().filter(|l| l.alive) {
        drop(unsafe { Box::from_raw(l.ptr) });
        l.alive = false;
    }
    bad
}

fn gen_history(rng: &mut Rng, dmin: &[u64], len: usize) -> Vec<Op> {
    let last = *dmin.last().unwrap();
    let mut ops = vec![];
    // model of what is alive, to generate only well-formed histories
    let mut clones: Vec<(bool, usize)> = vec![(true, 0)];
    let mut iters: Vec<Option<usize>> = vec![];
    for _ in 0..len {
        let alive: Vec<usize> = (0..clones.len()).filter(|i| clones[*i].0).collect();
        let live_iters: Vec<usize> = (0..iters.len()).filter(|i| iters[*i].is_some()).collect();
        let c = *rng.pick(&alive);
        let delta = match rng.range(0, 5) {
            0 => rng.range(0, last + 1),
            1 => rng.range(0, 4 * last + 4),
            2 => rng.range(0, 12 * last + 12),
            3 => 0,
            4 => last * rng.range(1, 6),
            _ => last * rng.range(1, 6) + 1,
        };
        match rng.range(0, 11) {
            0..=3 => ops.push(Op::Query { clone: c, delta }),
            4 => ops.push(Op::JitterQuery { clone: c, jitter: rng.range(0, 2 * last), delta }),
            5 if live_iters.len() < 3 => {
                ops.push(Op::NewIter { clone: c });
                iters.push(Some(c));
                clones[c].1 += 1;
            }
            5..=8 if !live_iters.is_empty() => ops.push(Op::Next { iter: *rng.pick(&live_iters) }),
            9 if alive.len() < 4 => {
                ops.push(Op::Clone { clone: c });
                clones.push((true, 0));
            }
            10 if alive.len() > 1 && clones[c].1 == 0 => {
                ops.push(Op::DropClone { clone: c });
                clones[c].0 = false;
            }
            11 if !live_iters.is_empty() => {
                let i = *rng.pick(&live_iters);
                ops.push(Op::DropIter { iter: i });
                clones[iters[i].unwrap()].1 -= 1;
                iters[i] = None;
            }
            _ => ops.push(Op::Query { clone: c, delta }),
        }
    }
    ops
}

pub fn miri_lite(seed: u64) -> i32 {
    // A reduced version for the undefined-behaviour interpreter: a few short histories.
    let mut rng = Rng::new(seed);
    let mut rep = CaseReport::default();
    let mut total = 0;
    for _ in 0..4 {
        let dmin = gen_dmin(&mut rng, 4, 6, true);
        let ops = gen_history(&mut rng, &dmin, 25);
        total += ops.len();
        let bad = run_history(&dmin, &ops, &mut rep);
        if !bad.is_empty() {
            println!("VIOLATION property=C13 replay=none (miri-lite) {:?}", bad[0].0);
            return 1;
        }
    }
    println!("miri-lite C13: {} operations executed, no violation", total);
    0
}

impl Monitor for C13 {
    fn id(&self) -> &'static str {
        "C13"
    }
    fn rule(&self) -> String {
        "case = one random non-decreasing super-additive delta-min prefix (1-6 entries, bursts and plateaus, last entry > 0). (A) eager extension: extrapolate(horizon), extrapolate_steps(n), extrapolate_with_bound are applied to a Curve; min_distance must equal the independently computed super-additive closure, values inside the original prefix must be unchanged, number_arrivals must never exceed the un-extrapolated curve's on [0, 12L], and admissible event sequences of the ORIGINAL prefix (dense and randomised) must respect the extended curve in every window. (B) history: 2-4 clones of one ExtrapolatingCurve, up to 3 live steps_iter iterators, 50-300 random operations (number_arrivals, clone_with_jitter().number_arrivals, next(), clone(), drop); every answer is compared with the closure and with a fresh curve asked only that question; a panic is a violation; after every operation hook H4 checks that the shared cache only grew by appending, equals the closure, and is shared by all clones. Non-trivial = prefix with >= 2 entries (extrapolation possible) and the history extended the cache at least once; distinct = distinct (prefix, history).".to_string()
    }
    fn assumptions(&self) -> Vec<String> {
        vec![
            "prefixes are non-decreasing, super-additive, last entry > 0 (DESIGN.md §2)".to_string(),
            "the reference is the tightest super-additive extension dmin(n) = max_{a+b-1=n} dmin(a)+dmin(b), computed independently in model/arr.rs".to_string(),
        ]
    }
    fn cases(&self, tier: Tier) -> u64 {
        match tier {
            Tier::Quick => 40_000,
            Tier::Thorough => 600_000,
        }
    }
    fn required_counters(&self) -> Vec<&'static str> {
        vec!["history_operations", "cache_snapshots_checked", "eager_points_compared", "sequence_windows_checked", "histories_that_extended_the_cache"]
    }

    fn unguarded_library_failure(&self, c: &crate::framework::Caught, rep: &mut CaseReport) -> bool {
        // this property's objects must answer every query: a library panic / runaway loop that surfaces
        // outside a guarded call (e.g. while the monitor inspects the shared cache) is a violation too
        rep.violation(
            format!("C13 kind=library-{}-outside-a-guarded-call class={}", c.kind, c.class()),
            crate::jobj! {"caught" => c.to_json(), "case" => rep.sample.clone()},
        );
        true
    }
    fn run_case(&self, _index: u64, seed: u64, _tier: Tier, rep: &mut CaseReport) {
        let mut rng = Rng::new(seed);
        let scale = *rng.pick(&[3u64, 10, 40]);
        let bursty = rng.chance(1, 2);
        // every 32nd case: a long prefix (70-140 entries, e.g. recorded from bursts of that many jobs), so
        // that the splits that determine an extension also pair two LONG parts
        let dmin = if _index % 32 == 31 {
            let len = rng.usize(70, 140);
            rep.count("long_prefixes", 1);
            crate::model::arr::gen_dmin_len(&mut rng, len, scale, bursty)
        } else {
            gen_dmin(&mut rng, 6, scale, bursty)
        };
        let last = *dmin.last().unwrap();
        rep.sample = Some(jobj! {"delta_min_prefix" => &dmin});

        // ------------------------------------------------------------ (A) eager
        let which = rng.range(0, 2);
        let horizon = rng.range(0, 10 * last + 5);
        let nsteps = rng.usize(0, 40);
        // a valid (and for single-entry prefixes consistent) lower bound on the next distance
        let bound_delta = 1 + if dmin.len() == 1 { 2 * last } else { last } + rng.range(0, 2 * last + 2);
        let r = guard(|| {
            let orig = Arr::build_curve(&dmin);
            let mut ext = Arr::build_curve(&dmin);
            // queries BEFORE the extension (also on a clone, beyond the prefix) must leave no trace
            let pre1 = ext.number_arrivals(Duration::from(3 * last + 2));
            // (also a few steps: the clone below inherits whatever that left behind)
            let pre_steps = ext.steps_iter().take(4).count();
            let _ = pre_steps;
            let cl = ext.clone();
            let pre2 = cl.number_arrivals(Duration::from(7 * last + 1));
            let _ = (pre1, pre2);
            match which {
                0 => ext.extrapolate(Duration::from(horizon)),
                1 => ext.extrapolate_steps(nsteps),
                _ => ext.extrapolate_with_bound((Duration::from(bound_delta), dmin.len() + 2 - rng.usize(0, 1))),
            }
            // first queries after the extension: slightly longer windows than the ones asked before it
            // (the extension may have tightened them below the earlier, un-extrapolated answers), also on
            // a clone that inherited whatever state the earlier queries left behind and is extended itself
            let _ = ext.number_arrivals(Duration::from(3 * last + 3));
            let _ = ext.number_arrivals(Duration::from(7 * last + 2));
            let mut cl2 = cl.clone();
            cl2.extrapolate(Duration::from(9 * last + 9));
            let _ = cl2.number_arrivals(Duration::from(7 * last + 2));
            let upto = 12 * last + 12;
            let d_ext: Vec<u64> = (2..=(dmin.len() + 60)).map(|n| u64::from(ext.min_distance(n))).collect();
            // the same extension applied to an object that was never queried before
            let mut fresh = Arr::build_curve(&dmin);
            match which {
                0 => fresh.extrapolate(Duration::from(horizon)),
                1 => fresh.extrapolate_steps(nsteps),
                _ => {}
            }
            if which != 2 {
                let (a, b) = (table(&ext, upto), table(&fresh, upto));
                if a != b {
                    panic!("a Curve that was queried before being extended answers differently from one that was not");
                }
            }
            // the steps of the extended curve (and of the extended clone) must be those of ITS number_arrivals
            let steps_ext: Vec<u64> = ext.steps_iter().map(u64::from).take_while(|x| *x <= upto).take(4000).collect();
            let t2 = table(&cl2, upto);
            let steps_cl2: Vec<u64> = cl2.steps_iter().map(u64::from).take_while(|x| *x <= upto).take(4000).collect();
            let want2: Vec<u64> = (1..=upto as usize).filter(|x| t2[*x] > t2[*x - 1]).map(|x| x as u64).collect();
            if steps_cl2 != want2 {
                panic!("steps_iter of an extended clone differs from the points where its number_arrivals increases");
            }
            (table(&orig, upto), table(&ext, upto), d_ext, steps_ext)
        });
        match r {
            Err(c) => rep.violation(format!("C13 part=eager kind={} class={}", c.kind, c.class()), jobj! {"prefix"=>&dmin,"caught"=>c.to_json()}),
            Ok((fo, fe, d_ext, steps_ext)) => {
                let want_steps: Vec<u64> = (1..fe.len()).filter(|x| fe[*x] > fe[*x - 1]).map(|x| x as u64).collect();
                rep.count("steps_of_extended_curves_compared", 1);
                if steps_ext != want_steps {
                    let k = (0..want_steps.len().max(steps_ext.len())).find(|k| steps_ext.get(*k) != want_steps.get(*k)).unwrap_or(0);
                    rep.violation(
                        "C13 part=eager kind=steps_iter-after-extension-differs-from-number_arrivals".to_string(),
                        jobj! {"prefix"=>&dmin,"extension"=>which,"position"=>k,"yielded"=>steps_ext.get(k).copied(),"expected"=>want_steps.get(k).copied()},
                    );
                }
                // how long did the vector get? (min_distance saturates at the last entry)
                let mut len_ext = d_ext.len();
                while len_ext > dmin.len() && d_ext[len_ext - 1] == d_ext[len_ext - 2] && len_ext > 1 {
                    len_ext -= 1;
                }
                let closed = close_superadditive(&dmin, len_ext + 1, 0, 6000);
                for i in 0..dmin.len() {
                    rep.count("eager_points_compared", 1);
                    if d_ext[i] != dmin[i] {
                        rep.violation("C13 part=eager kind=value-inside-original-prefix-changed".to_string(), jobj! {"prefix"=>&dmin,"n"=>i+2,"before"=>dmin[i],"after"=>d_ext[i]});
                    }
                }
                let mut with_bound_ok = true;
                if which == 2 {
                    // extrapolate_with_bound appends ONE entry iff the announced event count is the next one:
                    // max(bound - 1, closure) (just bound - 1 for single-entry prefixes)
                    let appended = len_ext > dmin.len();
                    rep.count("extrapolate_with_bound_cases", 1);
                    if appended {
                        let want = if dmin.len() >= 2 { (bound_delta - 1).max(closed[dmin.len()]) } else { bound_delta - 1 };
                        with_bound_ok = len_ext == dmin.len() + 1 && d_ext[dmin.len()] == want;
                        if !with_bound_ok {
                            rep.violation(
                                "C13 part=eager kind=extrapolate_with_bound-entry-differs-from-max(bound,closure)".to_string(),
                                jobj! {"prefix"=>&dmin,"bound_(delta,njobs)"=>vec![bound_delta, dmin.len() as u64 + 2],"appended"=>&d_ext[dmin.len()..len_ext],"expected"=>want},
                            );
                        }
                    }
                }
                let mut extension_is_closure = true;
                if which != 2 && dmin.len() >= 2 {
                    for i in dmin.len()..len_ext.min(closed.len()) {
                        rep.count("eager_points_compared", 1);
                        if d_ext[i] != closed[i] {
                            rep.violation(
                                "C13 part=eager kind=extrapolated-distance-differs-from-superadditive-closure".to_string(),
                                jobj! {"prefix"=>&dmin,"n"=>i+2,"library"=>d_ext[i],"closure"=>closed[i]},
                            );
                            extension_is_closure = false;
                            break;
                        }
                    }
                }
                for x in 0..fo.len() {
                    rep.count("eager_points_compared", 1);
                    if fe[x] > fo[x] {
                        let new_last = d_ext[len_ext - 1];
                        // the "beyond" class is the known effect of whole-prefix repetition on a CORRECTLY
                        // extended prefix; if the extension itself is not the closure this is something else
                        let wher = if (x as u64) <= new_last {
                            "inside-extended-prefix"
                        } else if extension_is_closure && with_bound_ok {
                            "beyond-extended-prefix"
                        } else {
                            "beyond-an-extension-that-is-not-the-closure"
                        };
                        let call = match which { 0 => format!("extrapolate({})", horizon), 1 => format!("extrapolate_steps({})", nsteps), _ => format!("extrapolate_with_bound(({},..))", bound_delta) };
                        rep.violation(
                            format!("C13 part=eager kind=extrapolation-raises-number_arrivals-{}", wher),
                            jobj! {"prefix"=>&dmin,"call"=>call,"extended_prefix"=>&d_ext[..len_ext],"delta"=>x,"extrapolated"=>fe[x],"original"=>fo[x]},
                        );
                        break;
                    }
                    if (x as u64) < last && fe[x] != fo[x] {
                        rep.violation("C13 part=eager kind=number_arrivals-inside-original-prefix-changed".to_string(), jobj! {"prefix"=>&dmin,"delta"=>x,"extrapolated"=>fe[x],"original"=>fo[x]});
                        break;
                    }
                }
                // admissible sequences of the ORIGINAL prefix must respect the extended curve
                if which != 2 {
                    let comp = Comp { base: Base::Dmin(dmin.clone()), jitter: 0 };
                    for mode in [SeqMode::Dense, SeqMode::Random, SeqMode::Random] {
                        let seq = comp.sequence(&mut rng, mode, 2, fe.len() as u64 - 1, 400);
                        'w: for i in 0..seq.len() {
                            for j in i..seq.len() {
                                let span = seq[j] - seq[i] + 1;
                                if span as usize >= fe.len() {
                                    break;
                                }
                                rep.count("sequence_windows_checked", 1);
                                if (j - i + 1) as u64 > fe[span as usize] {
                                    rep.violation(
                                        "C13 part=eager kind=sequence-respecting-original-prefix-exceeds-extrapolated-curve".to_string(),
                                        jobj! {"prefix"=>&dmin,"sequence"=>&seq,"window_start"=>seq[i],"window_length"=>span,"events"=>j-i+1,"number_arrivals"=>fe[span as usize]},
                                    );
                                    break 'w;
                                }
                            }
                        }
                    }
                }
            }
        }

        // ------------------------------------------------------------ (D) analyses run twice on the same objects
        // The cache must be invisible to analyses as well: the same request bounds (sharing ExtrapolatingCurve
        // caches) analysed twice, and once more with fresh objects, must give the same result.
        if dmin.len() >= 2 {
            use response_time_analysis::demand::RBF;
            use response_time_analysis::ros2::rr;
            use response_time_analysis::supply::Dedicated;
            use response_time_analysis::time::Service;
            use response_time_analysis::wcet::Scalar;
            let c1 = rng.range(1, 3);
            let c2 = rng.range(1, 3);
            let r1 = rng.range(1, 4 * last + 4);
            let r2 = rng.range(1, 4 * last + 4);
            let dmin2 = gen_dmin(&mut rng, 4, scale, false);
            let lim = 2_000u64;
            let run = |a: &arrival::ExtrapolatingCurve, b: &arrival::ExtrapolatingCurve| -> (String, String) {
                let (s1, s2) = (Scalar::new(Service::from(c1)), Scalar::new(Service::from(c2)));
                let cbs = vec![
                    rr::Callback::new(Duration::from(r1), a, &s1, rr::CallbackType::PolledUnknownPrio),
                    rr::Callback::new(Duration::from(r2), b, &s2, rr::CallbackType::Timer),
                ];
                let sub = [&cbs[0]];
                let x = rr::rta_subchain(&Dedicated::new(), &cbs[..], &sub[..], Duration::from(lim));
                let rbf = RBF::new(a.clone(), s1);
                let y = response_time_analysis::fifo::dedicated_uniproc_rta(&rbf, Duration::from(lim));
                (format!("{:?}", x), format!("{:?}", y))
            };
            let r = guard(|| {
                let a = arrival::ExtrapolatingCurve::new(Arr::build_curve(&dmin));
                let b = arrival::ExtrapolatingCurve::new(Arr::build_curve(&dmin2));
                let first = run(&a, &b);
                let second = run(&a, &b);
                let fa = arrival::ExtrapolatingCurve::new(Arr::build_curve(&dmin));
                let fb = arrival::ExtrapolatingCurve::new(Arr::build_curve(&dmin2));
                // warm the fresh caches differently before analysing
                let _ = fa.number_arrivals(Duration::from(9 * last + 3));
                let third = run(&fa, &fb);
                (first, second, third)
            });
            rep.count("analyses_repeated_on_shared_caches", 1);
            match r {
                Err(c) => rep.violation(format!("C13 part=analysis-twice kind={} class={}", c.kind, c.class()), jobj! {"prefix"=>&dmin,"prefix2"=>&dmin2,"caught"=>c.to_json()}),
                Ok((first, second, third)) => {
                    if first != second || first != third {
                        rep.violation(
                            "C13 part=analysis-twice kind=analysis-result-depends-on-cache-state".to_string(),
                            jobj! {"prefix"=>&dmin,"prefix2"=>&dmin2,"costs"=>vec![c1,c2],"assumed_bounds"=>vec![r1,r2],
                            "first_run_[rr,fifo]"=>vec![first.0.clone(), first.1.clone()],"second_run_same_objects"=>vec![second.0, second.1],"run_on_fresh_pre-warmed_objects"=>vec![third.0, third.1]},
                        );
                    }
                }
            }
        }

        // ------------------------------------------------------------ (E) one big jump
        // The FIRST query of a fresh ExtrapolatingCurve lands thousands of entries beyond its cache. It must
        // be answered like the closure says, like an eagerly extrapolated Curve, like a gradually warmed-up
        // object, and consistently with the next (slightly longer) query on the same object.
        if _index % 64 == 63 && dmin.len() >= 2 {
            let n_target = rng.usize(4200, 5200);
            let closed = close_superadditive(&dmin, n_target, 0, 6000);
            let delta = closed[closed.len() - 1].saturating_sub(rng.range(0, 3)).max(1);
            let closed = close_superadditive(&dmin, n_target + 8, delta + 3, 6200);
            let want = (eta(&closed, delta), eta(&closed, delta + 1));
            let r = guard(|| {
                let q = |c: &dyn ArrivalBound, x: u64| c.number_arrivals(Duration::from(x)) as u64;
                let fresh = arrival::ExtrapolatingCurve::new(Arr::build_curve(&dmin));
                let a = q(&fresh, delta);
                let b = q(&fresh, delta + 1);
                let a2 = q(&fresh, delta);
                let warmed = arrival::ExtrapolatingCurve::new(Arr::build_curve(&dmin));
                for k in [16u64, 8, 4, 2] {
                    let _ = q(&warmed, delta / k);
                }
                let w = (q(&warmed, delta), q(&warmed, delta + 1));
                let mut eager = Arr::build_curve(&dmin);
                eager.extrapolate(Duration::from(delta + 2));
                let e = (q(&eager, delta), q(&eager, delta + 1));
                (a, b, a2, w, e)
            });
            rep.count("big_jump_first_queries", 1);
            match r {
                Ok((a, b, a2, w, e)) => {
                    if *closed.last().unwrap() <= delta + 1 {
                        rep.count("big_jump_closure_too_short_for_the_oracle", 1);
                    } else if (a, b) != want || a2 != a || w != want || e != want {
                        rep.violation(
                            "C13 part=big-jump kind=first-far-query-differs-from-closure-or-from-warmed-up-or-eager-object".to_string(),
                            jobj! {"prefix"=>&dmin,"delta"=>delta,"closure_[eta(delta),eta(delta+1)]"=>vec![want.0, want.1],
                            "fresh_first_query(delta)"=>a,"then(delta+1)"=>b,"then(delta)_again"=>a2,
                            "gradually_warmed_up_[delta,delta+1]"=>vec![w.0, w.1],"eagerly_extrapolated_curve_[delta,delta+1]"=>vec![e.0, e.1],
                            "entries_needed"=>n_target},
                        );
                    }
                }
                Err(c) => rep.violation(
                    format!("C13 part=big-jump kind={} class={}", c.kind, c.class()),
                    jobj! {"prefix"=>&dmin,"delta"=>delta,"caught"=>c.to_json()},
                ),
            }
        }

        // ------------------------------------------------------------ (B) history
        let hl = rng.usize(50, 300);
        let ops = gen_history(&mut rng, &dmin, hl);
        let before = rep.counters.get("distinct_cache_lengths_seen").copied().unwrap_or(0);
        let bad = run_history(&dmin, &ops, rep);
        let grew = rep.counters.get("distinct_cache_lengths_seen").copied().unwrap_or(0) - before >= 2;
        rep.count("histories", 1);
        if grew {
            rep.count("histories_that_extended_the_cache", 1);
        }
        for (kind, d) in bad {
            rep.violation(
                format!("C13 part=history kind={}", kind),
                jobj! {"prefix"=>&dmin,"observation"=>d,"history"=>Json::Arr(ops.iter().map(|o| o.to_json()).collect())},
            );
        }
        if dmin.len() >= 2 && grew {
            let mut w = dmin.clone();
            w.push(seed);
            rep.nontrivial_key(&w);
        }
    }
}
