//! C05 — ROS 2 round-robin (rr) and busy-window (bw) analyses are safe for
//! self-consistent assumed bounds.

use crate::framework::{CaseReport, Monitor, Tier};
use crate::jobj;
use crate::json::Json;
use crate::model::ros::{run_lib, CbSpec, Kind, RosProblem};
use crate::model::uni::{mean_separation, Outcome};
use crate::monitors::c04::{exec_patterns, gen_executor};
use crate::oracle::sbf::Sup;
use crate::rng::Rng;
use crate::sim::ros::{log_to_json, make_plan, simulate, validate, Executor};

pub struct C05;

/// Iterate the singleton-subchain analysis upwards from the WCETs until the
/// vector of bounds reproduces itself.
pub fn self_consistent_bounds(ex: &Executor, kinds: &[Kind], use_bw: bool, limit: u64, rep: &mut CaseReport) -> Option<(Vec<u64>, u32)> {
    let n = ex.cbs.len();
    let mut r: Vec<u64> = ex.cbs.iter().map(|c| c.wcet).collect();
    for round in 1..=60u32 {
        let workload: Vec<CbSpec> = (0..n)
            .map(|i| CbSpec { rt_bound: r[i], arr: ex.chains[ex.locate(i).0].source.clone(), cost: ex.cbs[i].cost(), kind: kinds[i] })
            .collect();
        let mut next = vec![0u64; n];
        for i in 0..n {
            let p = if use_bw {
                RosProblem::BW { sup: ex.sup, default_inverse: false, workload: workload.clone(), subchain: vec![i], limit }
            } else {
                RosProblem::RR { sup: ex.sup, default_inverse: false, workload: workload.clone(), subchain: vec![i], limit }
            };
            rep.count("analyses_run", 1);
            match run_lib(&p) {
                Ok(Outcome::Ok(v)) if v <= limit => next[i] = v,
                Ok(_) => return None,
                Err(_) => {
                    rep.count("analyses_panicked_or_out_of_fuel (decided by C20)", 1);
                    return None;
                }
            }
        }
        if next == r {
            return Some((r, round));
        }
        // iterate upwards only: a bound never shrinks below a value it already had
        for i in 0..n {
            next[i] = next[i].max(r[i]);
        }
        if next == r {
            // the analysis now yields smaller values for some callbacks; the vector is not reproduced exactly
            return None;
        }
        r = next;
    }
    None
}

impl Monitor for C05 {
    fn id(&self) -> &'static str {
        "C05"
    }
    fn rule(&self) -> String {
        "case = one random executor of 1-5 independent callbacks (timers and polled callbacks, unique priorities; each polled callback is presented to the analysis either with its true priority or as unknown-priority; supplies Dedicated / Periodic / Constrained). For rr and for bw: starting from the WCETs, the singleton-subchain analysis is applied to every callback with the current vector of assumed bounds until the vector reproduces itself exactly (the property's premise; otherwise the system is skipped and counted as not self-consistent). The executor + reservation model is then run under the canonical and randomised executions of C04, every log is validated offline, and every instance's response time is compared with its callback's bound. Non-trivial = premise established in >= 2 rounds, >= 2 callbacks with >= 1 polled; distinct = distinct (executor, kinds presented, analysis).".to_string()
    }
    fn assumptions(&self) -> Vec<String> {
        vec![
            "independent callbacks only (no chains): the arrival bound of every callback is its source curve under both propagation rules".to_string(),
            "a known priority Polled(p) is the executor's actual registration order; PolledUnknownPrio may sit anywhere".to_string(),
        ]
    }
    fn cases(&self, tier: Tier) -> u64 {
        match tier {
            Tier::Quick => 12_000,
            Tier::Thorough => 250_000,
        }
    }
    fn required_counters(&self) -> Vec<&'static str> {
        vec!["executions_validated", "instances_compared_with_bound", "self_consistent_vectors[rr]", "self_consistent_vectors[bw]"]
    }

    fn run_case(&self, _index: u64, seed: u64, tier: Tier, rep: &mut CaseReport) {
        let mut rng = Rng::new(seed);
        if _index % 16 == 15 {
            // small-scope exhaustive: every execution of a tiny executor against the self-consistent vectors
            let (ex, tiny) = crate::monitors::c04::gen_tiny_executor(&mut rng);
            let kinds: Vec<Kind> = ex.cbs.iter().map(|c| if c.timer { Kind::Timer } else if rng.chance(1, 2) { Kind::Polled(c.prio as i32) } else { Kind::PolledUnknown }).collect();
            rep.sample = Some(jobj! {"exhaustive_small_scope" => true, "executor" => ex.to_json(), "kinds_presented" => Json::Arr(kinds.iter().map(|k| k.to_json()).collect())});
            for (name, use_bw) in [("ros2::rr::rta_subchain", false), ("ros2::bw::rta_subchain", true)] {
                if let Some((v, _)) = self_consistent_bounds(&ex, &kinds, use_bw, 300, rep) {
                    let b: Vec<Option<u64>> = v.iter().map(|x| Some(*x)).collect();
                    crate::monitors::c04::exhaustive_compare("C05", name, &ex, &tiny, &b, rep);
                }
            }
            return;
        }
        let ex = gen_executor(&mut rng, true);
        let limit = 1500;
        // how each callback is presented to the analysis
        let kinds: Vec<Kind> = ex
            .cbs
            .iter()
            .map(|c| {
                if c.timer {
                    Kind::Timer
                } else if rng.chance(1, 2) {
                    Kind::Polled(c.prio as i32)
                } else {
                    Kind::PolledUnknown
                }
            })
            .collect();
        rep.sample = Some(jobj! {"executor" => ex.to_json(), "kinds_presented" => Json::Arr(kinds.iter().map(|k| k.to_json()).collect())});
        let mut vectors: Vec<(&'static str, Vec<u64>, u32)> = vec![];
        for (name, use_bw) in [("rr", false), ("bw", true)] {
            match self_consistent_bounds(&ex, &kinds, use_bw, limit, rep) {
                Some((v, rounds)) => {
                    rep.count(&format!("self_consistent_vectors[{}]", name), 1);
                    vectors.push((name, v, rounds));
                }
                None => rep.count(&format!("not_self_consistent_or_diverged[{}]", name), 1),
            }
        }
        if vectors.is_empty() {
            return;
        }
        let maxr = vectors.iter().flat_map(|(_, v, _)| v.iter()).copied().max().unwrap();
        let maxsep = ex.chains.iter().map(|c| mean_separation(&c.source)).max().unwrap();
        let jmax = ex.chains.iter().map(|c| c.source.max_jitter()).max().unwrap();
        let horizon = (2 * maxr + 2 * maxsep + 10).clamp(30, 800);
        let mut worst = vec![0u64; ex.cbs.len()];
        for (apat, spat, full, phase) in exec_patterns(&ex, tier, &mut rng) {
            let start = jmax + 1 + phase;
            let plan = make_plan(&ex, apat, spat, start, horizon, full, &mut rng);
            let log = simulate(&ex, &plan);
            let (times, _) = match validate(&ex, &plan, &log) {
                Ok(x) => x,
                Err(why) => {
                    rep.inconclusive = Some(format!("validator rejected the harness's own execution: {}", why));
                    return;
                }
            };
            rep.count("executions_validated", 1);
            for (cb, insts) in times.inst.iter().enumerate() {
                for (a, c) in insts {
                    let rt = c - a;
                    worst[cb] = worst[cb].max(rt);
                    for (name, v, _) in &vectors {
                        rep.count("instances_compared_with_bound", 1);
                        if rt > v[cb] {
                            rep.violation(
                                format!("C05 analysis=ros2::{}::rta_subchain kind=instance-exceeds-self-consistent-bound callback_kind={}", name, match kinds[cb] { Kind::Timer => "Timer", Kind::Polled(_) => "Polled", _ => "PolledUnknownPrio" }),
                                jobj! {"executor" => ex.to_json(), "kinds_presented" => Json::Arr(kinds.iter().map(|k| k.to_json()).collect()),
                                "self_consistent_bounds" => v, "callback" => cb, "observed_response_time" => rt, "activation" => *a, "completion" => *c,
                                "patterns" => format!("{:?}/{:?}/full_cost={}/phase={}", apat, spat, full, phase), "execution" => log_to_json(&log, &plan)},
                            );
                            return;
                        }
                    }
                }
            }
        }
        for (name, v, rounds) in &vectors {
            for cb in 0..ex.cbs.len() {
                rep.count("bounds_checked", 1);
                if ex.cbs.iter().any(|c| c.cost_curve.is_some()) {
                    rep.count("bounds_checked_in_executors_with_cost_curve_callbacks", 1);
                }
                if worst[cb] == v[cb] {
                    rep.count(&format!("bound_attained[{}]", name), 1);
                }
                rep.max("slack_between_bound_and_worst_observed", v[cb] - worst[cb].min(v[cb]));
            }
            if *rounds >= 2 && ex.cbs.len() >= 2 && ex.cbs.iter().any(|c| !c.timer) {
                let mut w = ex.words();
                w.push(name.len() as u64 + if *name == "bw" { 100 } else { 0 });
                w.extend(kinds.iter().map(|k| k.word()));
                rep.nontrivial_key(&w);
            }
        }
        let _ = Sup::Dedicated;
    }
}
