//! C01 / C02 / C03 — FP, EDF and FIFO analyses are safe for every legal schedule.
//!
//! Oracle shape: execution + independent model. The library returns Ok(R); the
//! scheduler model of `sim::uni` produces concrete schedules (canonical worst
//! cases, randomised ones); every schedule is validated offline and then every
//! job's response time is compared with R.

use crate::framework::{CaseReport, Monitor, Tier};
use crate::jobj;
use crate::json::Json;
use crate::model::uni::{analysis_name, Outcome, Policy, Preempt, SysGen, System, UniProblem};
use crate::rng::Rng;
use crate::sim::uni::{make_plan, plan_to_json, schedule_to_json, simulate, validate, Pattern, T0_MARGIN};

pub struct SafetyUni {
    pub id: &'static str,
    pub policy: Policy,
}

pub fn gen_system(rng: &mut Rng, tier: Tier, exact_only: bool, equal_deadlines: bool) -> System {
    let g = SysGen {
        max_tasks: if rng.chance(1, 3) { 2 } else { 5 },
        scale: *rng.pick(&[6u64, 12, 30, 60]),
        allow_curves: true,
        allow_composite: true,
        exact_only,
        equal_deadlines,
        cost_curves: !exact_only,
    };
    let _ = tier;
    g.gen(rng)
}

pub fn pick_limit(rng: &mut Rng) -> u64 {
    match rng.range(0, 9) {
        0 => rng.range(1, 40),
        1 => rng.range(20, 200),
        _ => 4000,
    }
}

/// The schedules to try for one (system, preemption model).
pub fn patterns(sys: &System, policy: Policy, pre: Preempt, ok: &[Option<u64>], tier: Tier, rng: &mut Rng) -> Vec<(Pattern, usize)> {
    let mut v = vec![];
    for (i, r) in ok.iter().enumerate() {
        if r.is_none() {
            continue;
        }
        v.push((Pattern::Synchronous, i));
        // potential blockers: lower priority (FP) / later deadline (EDF), non-preemptive stretch > 1
        if pre != Preempt::Full && policy != Policy::FIFO {
            let mut blockers: Vec<usize> = (0..sys.tasks.len())
                .filter(|b| *b != i)
                .filter(|b| match policy {
                    Policy::FP => sys.tasks[*b].prio > sys.tasks[i].prio,
                    Policy::EDF => sys.tasks[*b].deadline > sys.tasks[i].deadline,
                    Policy::FIFO => false,
                })
                .filter(|b| sys.tasks[*b].max_np(pre) > 1)
                .collect();
            blockers.sort_by_key(|b| std::cmp::Reverse(sys.tasks[*b].max_np(pre)));
            for b in blockers.into_iter().take(3) {
                v.push((Pattern::Blocked { blocker: b }, i));
            }
        }
    }
    // EDF: the worst case of a job is offset-specific — its absolute deadline must line up with the
    // deadlines of the other tasks' jobs. For every analysed task try the shifts that align its
    // deadline with one of the first releases of each other task (with and without a blocker).
    if policy == Policy::EDF {
        for (i, r) in ok.iter().enumerate() {
            if r.is_none() {
                continue;
            }
            let mut shifts: Vec<u64> = vec![];
            for (o, ot) in sys.tasks.iter().enumerate() {
                if o == i {
                    continue;
                }
                let sep = crate::model::uni::mean_separation(&ot.arr).max(1);
                for k in 0..4u64 {
                    // other task's k-th dense release is at about k*sep; deadline k*sep + D_o
                    let target = k * sep + ot.deadline;
                    if target >= sys.tasks[i].deadline {
                        shifts.push(target - sys.tasks[i].deadline);
                    }
                }
            }
            shifts.sort_unstable();
            shifts.dedup();
            let own_sep = crate::model::uni::mean_separation(&sys.tasks[i].arr).max(1);
            let blocker = (0..sys.tasks.len())
                .filter(|b| *b != i && sys.tasks[*b].deadline > sys.tasks[i].deadline && sys.tasks[*b].max_np(pre) > 1)
                .max_by_key(|b| sys.tasks[*b].max_np(pre));
            for sh in shifts.into_iter().filter(|s| *s > 0 && *s < 400).take(10) {
                v.push((Pattern::Shifted { task: i, shift: sh, blocker: None }, i));
                // variant with earlier jobs of the analysed task in the same busy window
                if sh >= own_sep {
                    v.push((Pattern::Shifted { task: i, shift: sh % own_sep, blocker: None }, i));
                }
                if pre != Preempt::Full && blocker.is_some() {
                    v.push((Pattern::Shifted { task: i, shift: sh, blocker }, i));
                }
            }
        }
    }
    let (nd, nr) = match tier {
        Tier::Quick => (2, 6),
        Tier::Thorough => (4, 16),
    };
    for _ in 0..nd {
        v.push((Pattern::DenseRandomExec, rng.usize(0, sys.tasks.len() - 1)));
    }
    for _ in 0..nr {
        v.push((Pattern::Random, rng.usize(0, sys.tasks.len() - 1)));
    }
    v
}

pub struct Observed {
    /// per task: largest response time seen (completed jobs, or time pending for unfinished ones)
    pub max_rt: Vec<u64>,
    pub schedules: u64,
    pub jobs: u64,
}

impl Monitor for SafetyUni {
    fn id(&self) -> &'static str {
        self.id
    }
    fn rule(&self) -> String {
        format!(
            "case = one random task system (1-5 tasks; Periodic / Sporadic with jitter up to 3T / bursty and plateaued delta-min curves / extrapolating curves / propagated and summed models; utilisation 30-110%; one task in five carries a cumulative cost curve instead of a scalar WCET where the analysis takes request-bound functions; one task in 25 never releases; limits from tight to generous); for every preemption model of {} and every task the library bound is computed; the system is then executed by the independent scheduler model under canonical synchronous + blocker-one-slot-earlier schedules per analysed task plus randomised releases/execution times/NP placements/tie-breaks; every schedule passes the offline validator before its response times are compared with the bounds. Non-trivial = analysis returned Ok, the system has >= 2 tasks and the analysed task suffered interference or blocking in some schedule (observed response time > its own WCET); distinct = distinct (system, preemption model, task).",
            self.policy.name()
        )
    }
    fn assumptions(&self) -> Vec<String> {
        vec![
            "discrete time; a job released at t can run in slot t; response time = completion - release".to_string(),
            "admissible release sequences are defined generatively in model/arr.rs (not via number_arrivals) and re-checked by the validator".to_string(),
            "blocking_bound handed to the FP analyses = longest lower-priority non-preemptive stretch - 1".to_string(),
            "only schedules generated by the adversaries are observed; a bound that no generated schedule exceeds may still be unsafe".to_string(),
        ]
    }
    fn cases(&self, tier: Tier) -> u64 {
        match (tier, self.policy) {
            (Tier::Quick, Policy::FIFO) => 30_000,
            (Tier::Quick, _) => 10_000,
            (Tier::Thorough, Policy::FIFO) => 600_000,
            (Tier::Thorough, _) => 150_000,
        }
    }
    fn required_counters(&self) -> Vec<&'static str> {
        vec!["schedules_validated", "jobs_compared_with_bound", "bound_attained"]
    }

    fn run_case(&self, _index: u64, seed: u64, tier: Tier, rep: &mut CaseReport) {
        let mut rng = Rng::new(seed);
        if _index % 16 == 15 {
            // small-scope exhaustive: every schedule of a tiny sporadic system
            let sys = gen_tiny(&mut rng);
            rep.sample = Some(jobj! {"policy" => self.policy.name(), "exhaustive_small_scope" => true, "tasks" => sys.to_json()});
            let pres: Vec<Preempt> = if self.policy == Policy::FIFO { vec![Preempt::Non] } else { vec![Preempt::Full, Preempt::Non] };
            for pre in pres {
                exhaustive_check(self.id, &sys, self.policy, pre, rep, false);
            }
            return;
        }
        let eq = self.policy != Policy::FP && rng.chance(1, 6);
        let sys = gen_system(&mut rng, tier, false, eq);
        let limit = pick_limit(&mut rng);
        rep.sample = Some(jobj! {"policy" => self.policy.name(), "limit" => limit, "tasks" => sys.to_json()});
        let pres: Vec<Preempt> = if self.policy == Policy::FIFO { vec![Preempt::Non] } else { Preempt::ALL.to_vec() };
        for pre in pres {
            check_system(self.id, &sys, self.policy, pre, limit, tier, &mut rng, rep);
        }
    }
}

/// Analyse every task, execute schedules, compare. Shared with C18.
pub fn check_system(
    id: &str,
    sys: &System,
    policy: Policy,
    pre: Preempt,
    limit: u64,
    tier: Tier,
    rng: &mut Rng,
    rep: &mut CaseReport,
) {
    let n = sys.tasks.len();
    let name = analysis_name(policy, pre);
    let mut bounds: Vec<Option<u64>> = vec![None; n];
    let mut fifo_done = false;
    for i in 0..n {
        if policy == Policy::FIFO && fifo_done {
            bounds[i] = bounds[0];
            continue;
        }
        if sys.tasks[i].arr.components().is_empty() && policy != Policy::FIFO {
            continue; // a task that never releases has no job to measure
        }
        let p = UniProblem::from_system(sys, policy, pre, i, limit);
        rep.count("analyses_run", 1);
        match crate::model::uni::run_lib(&p) {
            Ok(Outcome::Ok(r)) => {
                bounds[i] = Some(r);
                rep.count("analyses_ok", 1);
            }
            Ok(_) => rep.count("analyses_err", 1),
            Err(_) => rep.count("analyses_panicked_or_out_of_fuel (decided by C20)", 1),
        }
        fifo_done = true;
    }
    if bounds.iter().all(|b| b.is_none()) {
        return;
    }
    let maxr = bounds.iter().flatten().copied().max().unwrap();
    let maxsep = sys.tasks.iter().map(|t| crate::model::uni::mean_separation(&t.arr)).max().unwrap();
    let jmax = sys.tasks.iter().map(|t| t.arr.max_jitter()).max().unwrap();
    let horizon = (3 * maxr + 2 * maxsep + 10).clamp(40, 1200);
    let cap = jmax + T0_MARGIN + horizon + 2 * maxr + 400;
    let pats = patterns(sys, policy, pre, &bounds, tier, rng);
    let mut max_rt = vec![0u64; n];
    for (pat, tua) in pats {
        let curves = crate::model::uni::uses_cost_curves(policy, pre);
        let plan = crate::sim::uni::make_plan_c(sys, pre, pat, tua, horizon, rng, curves);
        let res = simulate(sys, policy, pre, &plan, cap);
        let rts = match crate::sim::uni::validate_c(sys, policy, pre, &plan, &res.schedule, curves) {
            Ok(r) => r,
            Err(why) => {
                rep.inconclusive = Some(format!("validator rejected the harness's own schedule ({} {:?}): {}", name, pat, why));
                return;
            }
        };
        rep.count("schedules_validated", 1);
        rep.count("slots_simulated", res.schedule.slots.len() as u64);
        let end = res.schedule.slots.len() as u64;
        for i in 0..n {
            let Some(r) = bounds[i] else { continue };
            for (ji, rt) in rts[i].iter().enumerate() {
                let rel = plan.jobs[i][ji].release;
                let (observed, finished) = match rt {
                    Some(x) => (*x, true),
                    // still pending at the end of the log: it has been waiting for end - release
                    None => (end.saturating_sub(rel), false),
                };
                if finished {
                    rep.count("jobs_compared_with_bound", 1);
                    max_rt[i] = max_rt[i].max(observed);
                }
                if observed > r {
                    rep.violation(
                        format!("{} analysis={} kind=job-exceeds-bound", id, name),
                        jobj! {
                            "analysis" => &name, "tasks" => sys.to_json(), "limit" => limit, "task_under_analysis" => i,
                            "bound" => r, "observed_response_time" => observed, "job" => ji, "release" => rel,
                            "completed" => finished, "pattern" => format!("{:?}", pat),
                            "plan" => plan_to_json(&plan), "schedule_rle_[start,task,job,len]" => schedule_to_json(&res.schedule)
                        },
                    );
                    return;
                }
            }
        }
    }
    for i in 0..n {
        let Some(r) = bounds[i] else { continue };
        if max_rt[i] == r {
            rep.count("bound_attained", 1);
        }
        rep.count("bounds_checked", 1);
        if crate::model::uni::uses_cost_curves(policy, pre) && sys.tasks.iter().any(|t| t.cost_curve.is_some()) {
            rep.count("bounds_checked_in_systems_with_cost_curve_tasks", 1);
            if max_rt[i] == r {
                rep.count("bounds_attained_in_systems_with_cost_curve_tasks", 1);
            }
        }
        rep.max("slack_between_bound_and_worst_observed", r - max_rt[i].min(r));
        if n >= 2 && max_rt[i] > sys.tasks[i].wcet {
            let mut w = sys.words();
            w.extend([pre as u64, i as u64, policy as u64]);
            rep.nontrivial_key(&w);
        }
    }
    let _ = Json::Null;
}

// ------------------------------------------------------------------------------------------------
// Small-scope exhaustive part: ALL schedules of a tiny system (state-graph exploration).

use crate::model::arr::Arr;
use crate::model::uni::Task;
use crate::sim::exhaustive::{explore, TinyTask};

pub fn gen_tiny(rng: &mut Rng) -> System {
    let n = rng.usize(1, 3);
    let mut prios: Vec<u32> = (0..n as u32).collect();
    rng.shuffle(&mut prios);
    let tasks = (0..n)
        .map(|k| {
            let t = rng.range(2, 7);
            let j = *rng.pick(&[0u64, 0, 1, 2]);
            let wcet = rng.range(1, 3.min(t));
            let arr = if j == 0 && rng.chance(1, 2) { Arr::Periodic { t } } else { Arr::Sporadic { t, j } };
            Task { arr, wcet, deadline: rng.range(1, 10), prio: prios[k], segs: vec![wcet], np_max: wcet, cost_curve: None }
        })
        .collect();
    System { tasks }
}

/// Compare all Ok bounds of (policy, pre) with the worst response times over ALL schedules.
/// Returns (per-task bound, per-task exhaustive worst) when the exploration was complete.
pub fn exhaustive_check(
    id: &str,
    sys: &System,
    policy: Policy,
    pre: Preempt,
    rep: &mut CaseReport,
    require_exact: bool,
) {
    let n = sys.tasks.len();
    let limit = 200;
    let mut bounds = vec![None; n];
    for i in 0..n {
        let p = UniProblem::from_system(sys, policy, pre, i, limit);
        if let Ok(Outcome::Ok(r)) = crate::model::uni::run_lib(&p) {
            bounds[i] = Some(r);
        }
    }
    if bounds.iter().all(|b| b.is_none()) {
        return;
    }
    let tiny: Vec<TinyTask> = sys
        .tasks
        .iter()
        .map(|t| {
            let (tt, jj) = match &t.arr {
                Arr::Periodic { t } => (*t, 0),
                Arr::Sporadic { t, j } => (*t, *j),
                _ => unreachable!(),
            };
            TinyTask { t: tt, j: jj, wcet: t.wcet, deadline: t.deadline, prio: t.prio }
        })
        .collect();
    let maxr = bounds.iter().flatten().copied().max().unwrap();
    let cap = (maxr + 4).min(60);
    let ex = explore(&tiny, policy, pre, cap, 60_000);
    rep.count("exhaustive_explorations", 1);
    rep.count("exhaustive_states", ex.states);
    rep.count("exhaustive_transitions", ex.transitions);
    if ex.complete {
        rep.count("exhaustive_explorations_complete", 1);
    }
    let name = analysis_name(policy, pre);
    for i in 0..n {
        let Some(r) = bounds[i] else { continue };
        // unsafe bound: some explored schedule exceeds it (valid even if the exploration is incomplete)
        if ex.worst[i] > r {
            rep.violation(
                format!("{} analysis={} kind=job-exceeds-bound (exhaustive small-scope exploration)", id, name),
                jobj! {"analysis" => &name, "tasks" => sys.to_json(), "task_under_analysis" => i, "bound" => r,
                "worst_response_time_over_all_schedules" => ex.worst[i], "states" => ex.states, "complete" => ex.complete},
            );
        } else if ex.complete && !ex.exceeded_cap {
            rep.count("bounds_compared_with_maximum_over_all_schedules", 1);
            if ex.worst[i] == r {
                rep.count("bounds_equal_to_maximum_over_all_schedules", 1);
            } else if require_exact {
                rep.violation(
                    format!("{} analysis={} kind=bound-not-attained (maximum over ALL schedules is smaller)", id, name),
                    jobj! {"analysis" => &name, "tasks" => sys.to_json(), "task_under_analysis" => i, "bound" => r,
                    "maximum_response_time_over_all_schedules" => ex.worst[i], "states" => ex.states},
                );
            }
        }
    }
}
