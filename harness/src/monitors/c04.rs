//! C04 — ROS 2 ECRTS'19 analyses are safe under reservation supply.

use crate::framework::{CaseReport, Monitor, Tier};
use crate::jobj;
use crate::model::arr::{Arr, ArrGen};
use crate::model::cost::Cost;
use crate::model::dem::Dem;
use crate::model::ros::{gen_sup, run_lib, RosProblem};
use crate::model::uni::{mean_separation, Outcome};
use crate::oracle::sbf::Sup;
use crate::rng::Rng;
use crate::sim::ros::{log_to_json, make_plan, simulate, validate, ArrivalPattern, Cb, Chain, Executor, SupplyPattern};

pub struct C04;

pub fn gen_executor(rng: &mut Rng, independent_only: bool) -> Executor {
    let (sup, _) = gen_sup(rng);
    let (q, _, p) = sup.qdp();
    let bw = 100 * q / p;
    let target = (bw * *rng.pick(&[15u64, 30, 45, 60, 80]) / 100).max(5);
    let scale = *rng.pick(&[8u64, 20, 50]);
    let g = ArrGen { scale, allow_never: false, allow_prefix: false, allow_composite: true, allow_curve: true, max_jitter_factor: 2 };
    let nchains = rng.usize(1, 5);
    let mut cbs: Vec<Cb> = vec![];
    let mut chains = vec![];
    for _ in 0..nchains {
        let source = if rng.chance(1, 5) { g.any(rng, 1) } else { g.leaf(rng) };
        let sep = mean_separation(&source).max(1);
        let len = if independent_only || rng.chance(1, 2) { 1 } else { rng.usize(2, 3) };
        let budget = (sep * target / 100 / nchains as u64).max(1);
        let mut idx = vec![];
        for k in 0..len {
            let cmax = (budget / len as u64).clamp(1, 15);
            let wcet = match rng.range(0, 2) {
                0 => cmax,
                _ => rng.range(1, cmax),
            };
            let timer = k == 0 && rng.chance(1, 3);
            idx.push(cbs.len());
            // stand-alone callbacks may come with a cost curve: c(1) = wcet, sub-additive, positive increments
            // (every instance executes for at least one slot in the executor model)
            let cost_curve = if len == 1 && wcet >= 2 && rng.chance(1, 2) {
                let mut c = crate::model::cost::gen_cumulative(rng, 4, wcet);
                let up = wcet - c[0];
                for x in c.iter_mut() {
                    *x += up;
                }
                if c.len() >= 2 { Some(c) } else { None }
            } else {
                None
            };
            cbs.push(Cb { wcet, timer, prio: 0, cost_curve });
        }
        chains.push(Chain { source, cbs: idx });
        // a twin of a stand-alone callback: same source model, same cost, same kind (another subscription
        // to the same topic running the same handler); the analyses see two callbacks on one model
        if len == 1 && rng.chance(1, 8) {
            let orig = cbs.last().unwrap().clone();
            let k = cbs.len();
            cbs.push(orig);
            let src = chains.last().unwrap().source.clone();
            chains.push(Chain { source: src, cbs: vec![k] });
        }
    }
    let mut prios: Vec<u32> = (0..cbs.len() as u32).collect();
    rng.shuffle(&mut prios);
    for (c, p) in cbs.iter_mut().zip(prios) {
        c.prio = p;
    }
    Executor { cbs, chains, sup }
}

fn rbf(arr: &Arr, c: u64) -> Dem {
    Dem::Rbf(arr.clone(), Cost::Scalar(c))
}

/// Demand of one callback, with its cost curve if it has one.
fn rbf_cb(arr: &Arr, cb: &Cb) -> Dem {
    Dem::Rbf(arr.clone(), cb.cost())
}

/// The analysis problems the executor gives rise to: (problem, what is measured).
#[derive(Clone, Debug)]
pub enum Measured {
    /// response time of every instance of this callback
    Callback(usize),
    /// source arrival -> completion of the last callback, per chain instance
    ChainEnd(usize),
}

pub fn problems(ex: &Executor, limit: u64) -> Vec<(RosProblem, Measured, bool)> {
    let mut out = vec![];
    let src_of = |cb: usize| &ex.chains[ex.locate(cb).0].source;
    for (i, cb) in ex.cbs.iter().enumerate() {
        let (ci, pos) = ex.locate(i);
        if cb.timer {
            // higher-priority timers interfere; everything else can block once (non-preemptive)
            let hp: Vec<Dem> = (0..ex.cbs.len()).filter(|j| *j != i && ex.cbs[*j].timer && ex.cbs[*j].prio < cb.prio).map(|j| rbf_cb(src_of(j), &ex.cbs[j])).collect();
            let blocking = (0..ex.cbs.len())
                .filter(|j| *j != i && !(ex.cbs[*j].timer && ex.cbs[*j].prio < cb.prio))
                .map(|j| ex.cbs[j].wcet - 1)
                .max()
                .unwrap_or(0);
            out.push((
                RosProblem::Timer { sup: ex.sup, default_inverse: false, own: rbf_cb(src_of(i), cb), interf: Dem::Aggregate(hp), blocking, limit },
                Measured::Callback(i),
                false,
            ));
        } else if ex.chains[ci].cbs.len() == 1 {
            // stand-alone polled callback: everything else interferes
            let others: Vec<Dem> = (0..ex.cbs.len()).filter(|j| *j != i).map(|j| rbf_cb(src_of(j), &ex.cbs[j])).collect();
            // needs the chained callbacks' activations to respect the curves assumed here
            let needs_compliance = ex.chains.iter().any(|c| c.cbs.len() > 1);
            out.push((
                RosProblem::PollingPoint { sup: ex.sup, default_inverse: false, own: rbf_cb(src_of(i), cb), interf: Dem::Slice(others), limit },
                Measured::Callback(i),
                needs_compliance,
            ));
        }
        let _ = pos;
    }
    for (ci, ch) in ex.chains.iter().enumerate() {
        if ch.cbs.len() < 2 {
            continue;
        }
        let total: u64 = ch.cbs.iter().map(|c| ex.cbs[*c].wcet).sum();
        let last = ex.cbs[*ch.cbs.last().unwrap()].wcet;
        let others: Vec<Dem> = ex
            .chains
            .iter()
            .enumerate()
            .filter(|(k, _)| *k != ci)
            .map(|(_, o)| if o.cbs.len() == 1 { rbf_cb(&o.source, &ex.cbs[o.cbs[0]]) } else { rbf(&o.source, o.cbs.iter().map(|c| ex.cbs[*c].wcet).sum()) })
            .collect();
        out.push((
            RosProblem::Chain {
                sup: ex.sup,
                default_inverse: false,
                last: rbf(&ch.source, last),
                prefix: rbf(&ch.source, total - last),
                full: rbf(&ch.source, total),
                others: Dem::Aggregate(others),
                limit,
            },
            Measured::ChainEnd(ci),
            false,
        ));
    }
    out
}

pub fn exec_patterns(ex: &Executor, tier: Tier, rng: &mut Rng) -> Vec<(ArrivalPattern, SupplyPattern, bool, u64)> {
    let (q, _, p) = ex.sup.qdp();
    let mut v = vec![];
    // canonical: arrivals right after the early budget of the first period ends
    for spat in [SupplyPattern::EarlyThenLate, SupplyPattern::AllLate] {
        v.push((ArrivalPattern::Synchronous, spat, true, q));
        for ci in 0..ex.chains.len().min(4) {
            v.push((ArrivalPattern::Shifted { chain: ci, shift: 1 }, spat, true, q));
        }
    }
    let extra = match tier {
        Tier::Quick => 8,
        Tier::Thorough => 24,
    };
    for _ in 0..extra {
        let spat = *rng.pick(&[SupplyPattern::EarlyThenLate, SupplyPattern::AllLate, SupplyPattern::AllEarly, SupplyPattern::Random, SupplyPattern::Random]);
        let apat = match rng.range(0, 2) {
            0 => ArrivalPattern::Synchronous,
            1 => ArrivalPattern::Shifted { chain: rng.usize(0, ex.chains.len() - 1), shift: rng.range(1, 4) },
            _ => ArrivalPattern::Random,
        };
        v.push((apat, spat, rng.chance(1, 2), rng.range(0, 2 * p)));
    }
    v
}

impl Monitor for C04 {
    fn id(&self) -> &'static str {
        "C04"
    }
    fn rule(&self) -> String {
        "case = one random executor (1-5 chains of 1-3 callbacks, optionally timer-headed; unique priorities; sources: Periodic / Sporadic with jitter / bursty curves / propagated and summed models; supply Dedicated / Periodic / Constrained; utilisation 30-95% of the supply bandwidth) with all its analysis problems: rta_timer for every timer (interference = higher-priority timers, blocking = largest WCET of anything else - 1), rta_polling_point_callback for every stand-alone polled callback (interference = all other callbacks), rta_processing_chain for every chain of >= 2 callbacks; plus an event source analysed by rta_event_source and executed as a FIFO queue on the reservation. The executor + reservation model is run under canonical executions (arrivals right after the early first budget, later budgets as late as the deadline allows; measured source one slot after the others) and randomised arrivals / execution times / budget placements / phases; every log passes the offline validator; executions in which a chained callback's activations do not respect the curve an analysis assumed for it are not compared with that analysis. Non-trivial = bound Ok, (supply not dedicated or >= 2 callbacks), and the measured callback/chain was delayed by other work or by the reservation (observed response > own execution demand); distinct = distinct (executor, analysis).".to_string()
    }
    fn assumptions(&self) -> Vec<String> {
        vec![
            "executor and reservation semantics as in DESIGN.md §4; blocking bound for timers = largest WCET of any callback that is not a higher-priority timer, minus one".to_string(),
            "interfering chained callbacks are modelled with their chain's source curve; executions violating that premise are discarded for the affected analysis (counted)".to_string(),
        ]
    }
    fn cases(&self, tier: Tier) -> u64 {
        match tier {
            Tier::Quick => 12_000,
            Tier::Thorough => 250_000,
        }
    }
    fn required_counters(&self) -> Vec<&'static str> {
        vec!["executions_validated", "instances_compared_with_bound", "bound_attained", "event_source_instances_compared"]
    }

    fn run_case(&self, _index: u64, seed: u64, tier: Tier, rep: &mut CaseReport) {
        let mut rng = Rng::new(seed);
        if _index % 16 == 15 {
            // small-scope exhaustive: every execution of a tiny executor (timer and polling-point analyses)
            let (ex, tiny) = gen_tiny_executor(&mut rng);
            rep.sample = Some(jobj! {"exhaustive_small_scope" => true, "executor" => ex.to_json()});
            let probs = problems(&ex, 300);
            let mut bounds: Vec<Option<u64>> = vec![None; ex.cbs.len()];
            let mut names = vec![""; ex.cbs.len()];
            for (p, m, _) in &probs {
                if let (Measured::Callback(cb), Ok(Outcome::Ok(r))) = (m, run_lib(p)) {
                    bounds[*cb] = Some(r);
                    names[*cb] = p.name();
                }
            }
            // timers and polled callbacks have different analyses: report per analysis
            for which in ["ros2::rta_timer", "ros2::rta_polling_point_callback"] {
                let b: Vec<Option<u64>> = (0..ex.cbs.len()).map(|i| if names[i] == which { bounds[i] } else { None }).collect();
                exhaustive_compare("C04", which, &ex, &tiny, &b, rep);
            }
            return;
        }
        let ex = gen_executor(&mut rng, false);
        let limit = *rng.pick(&[300u64, 1000, 1000]);
        rep.sample = Some(ex.to_json());
        let probs = problems(&ex, limit);
        let mut bounds: Vec<Option<u64>> = vec![];
        for (p, _, _) in &probs {
            rep.count("analyses_run", 1);
            match run_lib(p) {
                Ok(Outcome::Ok(r)) => {
                    bounds.push(Some(r));
                    rep.count("analyses_ok", 1);
                }
                Ok(_) => {
                    bounds.push(None);
                    rep.count("analyses_err", 1);
                }
                Err(_) => {
                    bounds.push(None);
                    rep.count("analyses_panicked_or_out_of_fuel (decided by C20)", 1);
                }
            }
        }
        if bounds.iter().any(|b| b.is_some()) {
            let maxr = bounds.iter().flatten().copied().max().unwrap();
            let maxsep = ex.chains.iter().map(|c| mean_separation(&c.source)).max().unwrap();
            let jmax = ex.chains.iter().map(|c| c.source.max_jitter()).max().unwrap();
            let horizon = (2 * maxr + 2 * maxsep + 10).clamp(30, 800);
            let mut worst: Vec<u64> = vec![0; probs.len()];
            let mut own_demand: Vec<u64> = vec![0; probs.len()];
            for (apat, spat, full, phase) in exec_patterns(&ex, tier, &mut rng) {
                let start = jmax + 1 + phase;
                let plan = make_plan(&ex, apat, spat, start, horizon, full, &mut rng);
                let log = simulate(&ex, &plan);
                let (times, compliant) = match validate(&ex, &plan, &log) {
                    Ok(x) => x,
                    Err(why) => {
                        rep.inconclusive = Some(format!("validator rejected the harness's own execution: {}", why));
                        return;
                    }
                };
                rep.count("executions_validated", 1);
                rep.count("slots_simulated", log.slots.len() as u64);
                if !compliant {
                    rep.count("executions_not_compliant_with_assumed_curves_of_chained_callbacks", 1);
                }
                for (k, (p, m, needs)) in probs.iter().enumerate() {
                    let Some(r) = bounds[k] else { continue };
                    if *needs && !compliant {
                        continue;
                    }
                    let observed: Vec<(u64, u64, u64)> = match m {
                        Measured::Callback(cb) => times.inst[*cb].iter().map(|(a, c)| (*a, *c, ex.cbs[*cb].wcet)).collect(),
                        Measured::ChainEnd(ci) => {
                            let lastcb = *ex.chains[*ci].cbs.last().unwrap();
                            let total: u64 = ex.chains[*ci].cbs.iter().map(|c| ex.cbs[*c].wcet).sum();
                            times.inst[lastcb].iter().enumerate().map(|(i, (_, c))| (plan.arrivals[*ci][i], *c, total)).collect()
                        }
                    };
                    for (a, c, own) in observed {
                        let rt = c - a;
                        rep.count("instances_compared_with_bound", 1);
                        if rt > worst[k] {
                            worst[k] = rt;
                            own_demand[k] = own;
                        }
                        if rt > r {
                            rep.violation(
                                format!("C04 analysis={} kind=instance-exceeds-bound", p.name()),
                                jobj! {"executor" => ex.to_json(), "problem" => p.to_json(), "measured" => format!("{:?}", m), "bound" => r,
                                "observed_response_time" => rt, "activation" => a, "completion" => c,
                                "patterns" => format!("{:?}/{:?}/full_cost={}/phase={}", apat, spat, full, phase), "execution" => log_to_json(&log, &plan)},
                            );
                            return;
                        }
                    }
                }
            }
            for (k, (p, _, _)) in probs.iter().enumerate() {
                let Some(r) = bounds[k] else { continue };
                rep.count("bounds_checked", 1);
                if worst[k] == r {
                    rep.count("bound_attained", 1);
                }
                if ex.cbs.iter().any(|c| c.cost_curve.is_some()) {
                    rep.count("bounds_checked_in_executors_with_cost_curve_callbacks", 1);
                    if worst[k] == r {
                        rep.count("bounds_attained_in_executors_with_cost_curve_callbacks", 1);
                    }
                }
                rep.max("slack_between_bound_and_worst_observed", r - worst[k].min(r));
                if (ex.sup != Sup::Dedicated || ex.cbs.len() >= 2) && worst[k] > own_demand[k] {
                    let mut w = ex.words();
                    w.push(k as u64);
                    w.push(p.name().len() as u64);
                    rep.nontrivial_key(&w);
                }
            }
        }

        // ---- event source: FIFO queue on the reservation
        event_source_case(&mut rng, tier, rep);
    }
}

fn event_source_case(rng: &mut Rng, tier: Tier, rep: &mut CaseReport) {
    // an "executor" with only independent polled callbacks behaves as a FIFO server only if
    // there is a single queue; model the event source directly: jobs served in arrival order.
    let (sup, _) = gen_sup(rng);
    let (q, _, p) = sup.qdp();
    let scale = *rng.pick(&[8u64, 20, 50]);
    let g = ArrGen { scale, allow_never: false, allow_prefix: false, allow_composite: true, allow_curve: true, max_jitter_factor: 2 };
    let n = rng.usize(1, 3);
    let target = (100 * q / p * *rng.pick(&[40u64, 70, 90]) / 100).max(5);
    let mut srcs = vec![];
    for _ in 0..n {
        let arr = g.leaf(rng);
        let sep = mean_separation(&arr).max(1);
        let c = rng.range(1, (sep * target / 100 / n as u64).clamp(1, 12));
        srcs.push((arr, c));
    }
    let demand = Dem::Aggregate(srcs.iter().map(|(a, c)| rbf(a, *c)).collect());
    let prob = RosProblem::EventSource { sup, default_inverse: false, demand, limit: 1000 };
    let r = match run_lib(&prob) {
        Ok(Outcome::Ok(r)) => r,
        _ => {
            rep.count("event_source_analyses_not_ok", 1);
            return;
        }
    };
    let jmax = srcs.iter().map(|(a, _)| a.max_jitter()).max().unwrap();
    let horizon = (2 * r + 2 * scale + 10).clamp(30, 600);
    let runs = match tier {
        Tier::Quick => 6,
        Tier::Thorough => 16,
    };
    let mut worst = 0;
    for k in 0..runs {
        let (mode, spat, phase) = if k < 2 {
            (crate::model::arr::SeqMode::Dense, if k == 0 { SupplyPattern::EarlyThenLate } else { SupplyPattern::AllLate }, q)
        } else {
            (
                if rng.chance(1, 2) { crate::model::arr::SeqMode::Dense } else { crate::model::arr::SeqMode::Random },
                *rng.pick(&[SupplyPattern::EarlyThenLate, SupplyPattern::AllLate, SupplyPattern::Random]),
                rng.range(0, 2 * p),
            )
        };
        let start = jmax + 1 + phase;
        // jobs: (arrival, cost); tie order among simultaneous arrivals is arbitrary -> shuffle
        let mut jobs: Vec<(u64, u64)> = vec![];
        for (a, c) in &srcs {
            for comp in a.components() {
                let seq = comp.sequence(rng, mode, start, horizon, 300);
                if !comp.admissible(&seq) {
                    rep.inconclusive = Some("event-source generator produced an inadmissible sequence".to_string());
                    return;
                }
                for t in seq {
                    let e = if k < 2 || rng.chance(1, 2) { *c } else { rng.range(1, *c) };
                    jobs.push((t, e));
                }
            }
        }
        rng.shuffle(&mut jobs);
        jobs.sort_by_key(|j| j.0);
        let work: u64 = jobs.iter().map(|j| j.1).sum();
        let supply = crate::sim::ros::make_supply(sup, spat, start + horizon + (work + 2) * p / q + 4 * p + 8, rng);
        // FIFO service on the supply timeline
        let mut t = 0usize;
        for (arr, cost) in &jobs {
            t = t.max(*arr as usize);
            let mut rem = *cost;
            while rem > 0 && t < supply.len() {
                if supply[t] {
                    rem -= 1;
                }
                t += 1;
            }
            if rem > 0 {
                break;
            }
            let rt = t as u64 - arr;
            worst = worst.max(rt);
            rep.count("event_source_instances_compared", 1);
            if rt > r {
                rep.violation(
                    "C04 analysis=ros2::rta_event_source kind=instance-exceeds-bound".to_string(),
                    jobj! {"problem" => prob.to_json(), "bound" => r, "observed_response_time" => rt, "arrival" => *arr,
                    "jobs_[arrival,cost]" => crate::json::Json::Arr(jobs.iter().map(|(a, c)| crate::json::Json::from(vec![*a, *c])).collect()),
                    "supply_slots" => (0..supply.len() as u64).filter(|i| supply[*i as usize]).collect::<Vec<u64>>()},
                );
                return;
            }
        }
    }
    rep.count("event_source_bounds_checked", 1);
    if worst == r {
        rep.count("event_source_bound_attained", 1);
    }
}


// ------------------------------------------------------------------------------------------------
// Small-scope exhaustive part: ALL executions of a tiny executor of independent sporadic callbacks.

use crate::sim::exhaustive_ros::{explore, TinyCb};

pub fn gen_tiny_executor(rng: &mut Rng) -> (Executor, Vec<TinyCb>) {
    let n = rng.usize(1, 3);
    let sup = match rng.range(0, 3) {
        0 => Sup::Dedicated,
        1 => {
            let p = rng.range(2, 4);
            Sup::Periodic { q: rng.range(1, p), p }
        }
        _ => {
            let p = rng.range(2, 4);
            let d = rng.range(1, p);
            Sup::Constrained { q: rng.range(1, d), d, p }
        }
    };
    let mut prios: Vec<u32> = (0..n as u32).collect();
    rng.shuffle(&mut prios);
    let mut cbs = vec![];
    let mut chains = vec![];
    let mut tiny = vec![];
    for k in 0..n {
        let t = rng.range(3, 9);
        let wcet = rng.range(1, 2);
        let timer = rng.chance(1, 3);
        cbs.push(Cb { wcet, timer, prio: prios[k], cost_curve: None });
        chains.push(Chain { source: Arr::Sporadic { t, j: 0 }, cbs: vec![k] });
        tiny.push(TinyCb { t, wcet, timer, prio: prios[k] });
    }
    (Executor { cbs, chains, sup }, tiny)
}

/// Compare per-callback bounds with the maximum response time over ALL executions.
pub fn exhaustive_compare(id: &str, what: &str, ex: &Executor, tiny: &[TinyCb], bounds: &[Option<u64>], rep: &mut CaseReport) {
    if bounds.iter().all(|b| b.is_none()) {
        return;
    }
    let maxr = bounds.iter().flatten().copied().max().unwrap();
    let cap = (maxr + 4).min(80);
    let e = explore(tiny, ex.sup, cap, 80_000);
    rep.count("exhaustive_explorations", 1);
    rep.count("exhaustive_states", e.states);
    rep.count("exhaustive_transitions", e.transitions);
    if e.complete {
        rep.count("exhaustive_explorations_complete", 1);
    }
    for (i, b) in bounds.iter().enumerate() {
        let Some(r) = b else { continue };
        if e.worst[i] > *r {
            rep.violation(
                format!("{} analysis={} kind=instance-exceeds-bound (exhaustive small-scope exploration)", id, what),
                jobj! {"executor" => ex.to_json(), "callback" => i, "bound" => *r, "worst_response_time_over_all_executions" => e.worst[i],
                "states" => e.states, "complete" => e.complete},
            );
        } else if e.complete && !e.exceeded_cap {
            rep.count("bounds_compared_with_maximum_over_all_executions", 1);
            if e.worst[i] == *r {
                rep.count("bounds_equal_to_maximum_over_all_executions", 1);
            }
        }
    }
}
