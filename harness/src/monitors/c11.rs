//! C11 — steps_iter yields exactly the points where a bound increases.

use response_time_analysis::arrival::ArrivalBound;
use response_time_analysis::demand::{self, RequestBound};
use response_time_analysis::time::Duration;

use crate::framework::{guard, CaseReport, Monitor, Tier};
use crate::jobj;
use crate::json::Json;
use crate::model::arr::{Arr, ArrGen};
use crate::model::dem::{gen_dem, Dem};
use crate::monitors::c10::{horizon_of, table};
use crate::rng::Rng;

pub struct C11;

/// Compare pulled steps with the brute-force step set of `f` on [1, H].
/// Returns (kind, detail) of the first discrepancy.
pub fn compare_steps(f: &[u64], pulled: &[u64], exhausted: bool) -> Option<(String, Json)> {
    let h = f.len() as u64 - 1;
    let expected: Vec<u64> = (1..=h).filter(|x| f[(*x - 1) as usize] < f[*x as usize]).collect();
    let mut items: &[u64] = pulled;
    if items.first() == Some(&0) {
        return Some(("yields-zero-first".to_string(), jobj! {"first_items" => &pulled[..pulled.len().min(8)]}));
    }
    if let Some(i) = (1..items.len()).find(|i| items[*i] <= items[*i - 1]) {
        return Some(("not-strictly-increasing".to_string(), jobj! {"item" => items[i], "previous" => items[i-1], "position" => i}));
    }
    // items beyond the horizon are not comparable
    let upto = items.iter().position(|x| *x > h).unwrap_or(items.len());
    let saw_beyond = upto < items.len();
    items = &items[..upto];
    for (k, e) in expected.iter().enumerate() {
        match items.get(k) {
            Some(x) if x == e => {}
            Some(x) if x > e => {
                return Some(("missing-step".to_string(), jobj! {"missing_delta" => *e, "f(delta-1)" => f[(*e-1) as usize], "f(delta)" => f[*e as usize], "next_yielded" => *x}))
            }
            Some(x) => {
                return Some(("spurious-step".to_string(), jobj! {"yielded_delta" => *x, "f(delta-1)" => f[(*x-1) as usize], "f(delta)" => f[*x as usize]}))
            }
            None => {
                if saw_beyond || exhausted {
                    return Some(("missing-step".to_string(), jobj! {"missing_delta" => *e, "f(delta-1)" => f[(*e-1) as usize], "f(delta)" => f[*e as usize], "iterator_exhausted" => exhausted}));
                }
                // we stopped pulling too early: cannot happen (we pull until > H or exhaustion)
                return Some(("harness-pulled-too-few".to_string(), Json::Null));
            }
        }
    }
    if items.len() > expected.len() {
        let x = items[expected.len()];
        return Some(("spurious-step".to_string(), jobj! {"yielded_delta" => x, "f(delta-1)" => f[(x-1) as usize], "f(delta)" => f[x as usize]}));
    }
    None
}

/// Pull items until one exceeds `h`, the iterator ends, or `cap` items.
pub fn pull(it: &mut dyn Iterator<Item = Duration>, h: u64, cap: usize) -> (Vec<u64>, bool) {
    let mut v = vec![];
    loop {
        match it.next() {
            None => return (v, true),
            Some(x) => {
                let x = u64::from(x);
                v.push(x);
                if x > h || v.len() >= cap {
                    return (v, false);
                }
            }
        }
    }
}

/// Check one arrival model bottom-up; returns false if it (or a part) is faulty.
fn check_arr(arr: &Arr, h: u64, rep: &mut CaseReport, depth: u32) -> bool {
    // children first, so that a root cause in a leaf is reported for the leaf
    let children: Vec<&Arr> = match arr {
        Arr::Propagated { inner, .. } | Arr::Jittered { inner, .. } => vec![&**inner],
        Arr::Sum { parts } | Arr::RcSlice { parts } => parts.iter().collect(),
        Arr::SumOf { a, b } => vec![&**a, &**b],
        _ => vec![],
    };
    let mut ok = true;
    for c in children {
        ok &= check_arr(c, h, rep, depth + 1);
    }
    if !ok {
        rep.count("composites_skipped_because_a_part_is_faulty", 1);
        return false;
    }
    let shape = arr.shape();
    let res = guard(|| {
        let b = arr.build();
        let f = table(&*b, h);
        let (items, exhausted) = pull(&mut *b.steps_iter(), h, h as usize + 10);
        // queries interleaved with a live iterator (and a second live iterator) must neither fail
        // nor change what the iterator yields
        let mut it = b.steps_iter();
        let mut it2 = b.steps_iter();
        let mut interleaved = vec![];
        for k in 0..items.len().min(6) {
            if let Some(x) = it.next() {
                let _ = b.number_arrivals(x);
                let _ = b.number_arrivals(Duration::from(u64::from(x) + h));
                if k % 2 == 0 {
                    let _ = it2.next();
                }
                interleaved.push(u64::from(x));
            }
        }
        if interleaved[..] != items[..interleaved.len()] {
            panic!("items yielded while queries were interleaved differ: {:?} vs {:?}", interleaved, &items[..interleaved.len()]);
        }
        (f, items, exhausted)
    });
    match res {
        Err(c) => {
            rep.violation(format!("C11 impl={} kind={} class={}", shape, c.kind, c.class()), jobj! {"model"=>arr.to_json(),"caught"=>c.to_json()});
            false
        }
        Ok((f, items, exhausted)) => {
            rep.count("arrival_bounds_checked", 1);
            rep.count("steps_compared", items.len() as u64);
            if f[h as usize] == 0 {
                rep.count("empty_models_checked", 1);
            }
            match compare_steps(&f, &items, exhausted) {
                None => true,
                Some((kind, d)) => {
                    if kind == "harness-pulled-too-few" {
                        rep.inconclusive = Some("harness pulled too few steps".to_string());
                        return false;
                    }
                    // refine the two classes of input that have their own root cause
                    let refined = match (arr, kind.as_str()) {
                        (Arr::Curve { dmin }, "missing-step") if dmin.len() >= 2 && dmin[dmin.len() - 1] == dmin[dmin.len() - 2] => {
                            "missing-step-at-multiple-of-plateau-ended-prefix".to_string()
                        }
                        (Arr::Propagated { inner, .. }, "spurious-step") if matches!(**inner, Arr::Never) => "initial-step-although-nothing-arrives".to_string(),
                        _ => kind,
                    };
                    rep.violation(
                        format!("C11 impl={} kind={}", shape, refined),
                        jobj! {"model"=>arr.to_json(),"horizon"=>h,"discrepancy"=>d,"first_items"=>&items[..items.len().min(12)]},
                    );
                    // after the leading zero the rest may still be compared
                    if refined == "yields-zero-first" {
                        if let Some((k2, d2)) = compare_steps(&f, &items[1..], exhausted) {
                            rep.violation(
                                format!("C11 impl={} kind={}-after-leading-zero", shape, k2),
                                jobj! {"model"=>arr.to_json(),"horizon"=>h,"discrepancy"=>d2},
                            );
                        }
                    }
                    false
                }
            }
        }
    }
}

impl Monitor for C11 {
    fn id(&self) -> &'static str {
        "C11"
    }
    fn rule(&self) -> String {
        "case = one arrival model (all model types incl. ArrivalCurvePrefix and Never, jittered clones with jitter up to 3x the period scale, Propagated, sums / sum_of / Rc<[..]>, plateau-ended and bursty delta-min vectors, nesting depth <= 2) and one request bound (RBF with Scalar / Multiframe / cost-curve costs >= 1, Aggregate and Slice, nested). On [1,H] with H = 3x(largest prefix distance | period)+jitter (capped at 1200) the set {delta : f(delta-1) < f(delta)} computed by brute force must equal the items pulled from steps_iter (strictly increasing, none < 1, none missing, none spurious, empty iff nothing arrives); demand::step_offsets must be the same sequence minus one. Models are checked bottom-up: a composite is only compared if all its parts passed, so a defect is reported for the type that causes it. Non-trivial = >= 5 steps in [1,H] and not a bare Periodic/Sporadic; distinct = distinct instance.".to_string()
    }
    fn assumptions(&self) -> Vec<String> {
        vec!["job costs are >= 1 (the property's precondition for request bounds)".to_string(), "the horizon is finite: steps beyond H are not examined".to_string()]
    }
    fn cases(&self, tier: Tier) -> u64 {
        match tier {
            Tier::Quick => 200_000,
            Tier::Thorough => 3_000_000,
        }
    }
    fn required_counters(&self) -> Vec<&'static str> {
        vec!["arrival_bounds_checked", "request_bounds_checked", "steps_compared", "empty_models_checked"]
    }

    fn unguarded_library_failure(&self, c: &crate::framework::Caught, rep: &mut CaseReport) -> bool {
        // this property's objects must answer every query: a library panic / runaway loop that surfaces
        // outside a guarded call (e.g. while the monitor inspects the shared cache) is a violation too
        rep.violation(
            format!("C11 kind=library-{}-outside-a-guarded-call class={}", c.kind, c.class()),
            crate::jobj! {"caught" => c.to_json(), "case" => rep.sample.clone()},
        );
        true
    }
    fn run_case(&self, _index: u64, seed: u64, _tier: Tier, rep: &mut CaseReport) {
        let mut rng = Rng::new(seed);
        let g = ArrGen {
            scale: *rng.pick(&[3u64, 8, 30, 100]),
            allow_never: true,
            allow_prefix: true,
            allow_composite: true,
            allow_curve: true,
            max_jitter_factor: 3,
        };
        // ---- arrival bound
        let arr = g.any(&mut rng, 2);
        let h = horizon_of(&arr);
        let ok = check_arr(&arr, h, rep, 0);
        rep.sample = Some(arr.to_json());
        if ok && !matches!(arr, Arr::Periodic { .. } | Arr::Sporadic { .. }) {
            let b = arr.build();
            let f = table(&*b, h);
            let nsteps = (1..f.len()).filter(|x| f[*x - 1] < f[*x]).count();
            if nsteps >= 5 {
                let mut w = vec![];
                arr.words(&mut w);
                rep.nontrivial_key(&w);
            }
        }
        // ---- the trait's DEFAULT steps_iter (brute_force_steps_iter): ApproximatedPoisson is the only model
        //      of the crate that relies on it; low rates give models with number_arrivals(1) = 0
        if _index % 8 == 0 {
            use response_time_analysis::arrival::ApproximatedPoisson;
            let rate = 10f64.powf(-4.0 + 3.5 * rng.f64());
            let eps = *rng.pick(&[0.2f64, 0.05, 0.01, 0.001]);
            let jit = rng.range(0, 40);
            let hp = 300u64;
            let r = guard(|| {
                let ap = ApproximatedPoisson::new(rate, eps);
                let f = table(&ap, hp);
                let (items, ex) = pull(&mut *ap.steps_iter(), hp, hp as usize + 10);
                let j = ap.clone_with_jitter(Duration::from(jit));
                let fj = table(&*j, hp);
                let (items_j, exj) = pull(&mut *j.steps_iter(), hp, hp as usize + 10);
                (f, items, ex, fj, items_j, exj)
            });
            match r {
                Err(c) => rep.violation(format!("C11 impl=ApproximatedPoisson(default steps_iter) kind={} class={}", c.kind, c.class()), jobj! {"rate"=>rate,"epsilon"=>eps,"caught"=>c.to_json()}),
                Ok((f, items, ex, fj, items_j, exj)) => {
                    rep.count("default_steps_iter_models_checked", 1);
                    rep.count("steps_compared", (items.len() + items_j.len()) as u64);
                    if f[1] == 0 {
                        rep.count("default_steps_iter_models_without_step_at_one", 1);
                    }
                    if let Some((kind, d)) = compare_steps(&f, &items, ex) {
                        rep.violation(format!("C11 impl=ApproximatedPoisson(default steps_iter) kind={}", kind), jobj! {"rate"=>rate,"epsilon"=>eps,"discrepancy"=>d,"first_items"=>&items[..items.len().min(8)]});
                    } else if let Some((kind, d)) = compare_steps(&fj, &items_j, exj) {
                        rep.violation(format!("C11 impl=Propagated<ApproximatedPoisson> kind={}", kind), jobj! {"rate"=>rate,"epsilon"=>eps,"jitter"=>jit,"discrepancy"=>d,"first_items"=>&items_j[..items_j.len().min(8)]});
                    }
                }
            }
        }

        // ---- request bounds over such a model, alone and inside Aggregate / Slice next to an ordinary
        //      component: a component whose demand is zero for short windows still has steps later on
        if _index % 8 == 0 {
            use response_time_analysis::arrival::{ApproximatedPoisson, Periodic};
            use response_time_analysis::demand::{Aggregate, RequestBound, Slice, RBF};
            use response_time_analysis::time::Service;
            use response_time_analysis::wcet::Scalar;
            let rate = 10f64.powf(-3.5 + 2.0 * rng.f64());
            let eps = *rng.pick(&[0.05f64, 0.01, 0.001]);
            let (c1, c2, t) = (rng.range(1, 5), rng.range(1, 5), rng.range(2, 30));
            let hp = 200u64;
            let r = guard(|| {
                let mk = || -> Vec<Box<dyn RequestBound>> {
                    vec![
                        Box::new(RBF::new(ApproximatedPoisson::new(rate, eps), Scalar::new(Service::from(c1)))),
                        Box::new(RBF::new(Periodic::new(Duration::from(t)), Scalar::new(Service::from(c2)))),
                    ]
                };
                let agg = Aggregate::new(mk());
                let parts = mk();
                let sl = Slice::of(&parts[..]);
                let mut out = vec![];
                for (name, b) in [("Aggregate", &agg as &dyn RequestBound), ("Slice", &sl as &dyn RequestBound)] {
                    let f: Vec<u64> = (0..=hp).map(|x| u64::from(b.service_needed(Duration::from(x)))).collect();
                    let (items, ex) = pull(&mut *b.steps_iter(), hp, hp as usize + 10);
                    out.push((name, f, items, ex));
                }
                out
            });
            match r {
                Err(c) => rep.violation(format!("C11 impl=request-bound-with-ApproximatedPoisson-component kind={} class={}", c.kind, c.class()), jobj! {"rate"=>rate,"epsilon"=>eps,"caught"=>c.to_json()}),
                Ok(out) => {
                    for (name, f, items, ex) in out {
                        rep.count("request_bounds_with_a_component_silent_at_delta_one_checked", 1);
                        rep.count("steps_compared", items.len() as u64);
                        if let Some((kind, d)) = compare_steps(&f, &items, ex) {
                            rep.violation(
                                format!("C11 impl=demand::{}<[RBF<ApproximatedPoisson>, RBF<Periodic>]> kind={}", name, kind),
                                jobj! {"rate"=>rate,"epsilon"=>eps,"periodic"=>t,"costs"=>vec![c1, c2],"discrepancy"=>d,"first_items"=>&items[..items.len().min(8)]},
                            );
                            break;
                        }
                    }
                }
            }
        }

        // ---- request bound
        let dem = gen_dem(&mut rng, &g, 2);
        let hd = dem.arrs().iter().map(|a| horizon_of(a)).max().unwrap_or(10);
        // only compare if all arrival models inside are sound (else the root cause was reported above / for that type)
        let mut scratch = CaseReport::default();
        let parts_ok = dem.arrs().iter().all(|a| check_arr(a, hd.min(horizon_of(a)), &mut scratch, 0));
        if !parts_ok {
            rep.count("request_bounds_skipped_because_an_arrival_model_is_faulty", 1);
            // still report what the parts showed, so that the root cause is visible from this case too
            rep.violations.extend(scratch.violations);
            return;
        }
        let shape = dem.shape();
        let res = guard(|| {
            let b = dem.build();
            let f: Vec<u64> = (0..=hd).map(|x| u64::from(b.service_needed(Duration::from(x)))).collect();
            let (items, exhausted) = pull(&mut *b.steps_iter(), hd, hd as usize + 10);
            let offs: Vec<u64> = demand::step_offsets(&b).take(items.len()).map(u64::from).collect();
            (f, items, exhausted, offs)
        });
        match res {
            Err(c) => rep.violation(format!("C11 impl={} kind={} class={}", shape, c.kind, c.class()), jobj! {"demand"=>dem.to_json(),"caught"=>c.to_json()}),
            Ok((f, items, exhausted, offs)) => {
                rep.count("request_bounds_checked", 1);
                rep.count("steps_compared", items.len() as u64);
                if let Some((kind, d)) = compare_steps(&f, &items, exhausted) {
                    rep.violation(format!("C11 impl={} kind={}", shape, kind), jobj! {"demand"=>dem.to_json(),"horizon"=>hd,"discrepancy"=>d});
                } else {
                    let want: Vec<u64> = items.iter().map(|x| x - 1).collect();
                    rep.count("step_offsets_compared", offs.len() as u64);
                    if offs != want {
                        rep.violation(
                            format!("C11 impl=step_offsets({}) kind=not-steps-minus-one", shape),
                            jobj! {"demand"=>dem.to_json(),"steps"=>&items[..items.len().min(12)],"step_offsets"=>&offs[..offs.len().min(12)]},
                        );
                    }
                    if items.len() >= 5 {
                        let mut w = vec![];
                        dem.words(&mut w);
                        rep.nontrivial_key(&w);
                    }
                }
            }
        }
    }
}
