//! C16 — request-bound functions compose arrival and cost models additively.

use response_time_analysis::arrival::ArrivalBound;
use response_time_analysis::demand::{self, AggregateRequestBound, RequestBound};
use response_time_analysis::time::Duration;
use response_time_analysis::wcet::JobCostModel;

use crate::framework::{guard, CaseReport, Monitor, Tier};
use crate::jobj;
use crate::json::Json;
use crate::model::arr::{Arr, ArrGen};
use crate::model::cost::{gen_cost_z, Cost};
use crate::rng::Rng;

pub struct C16;

/// Reference values recomputed from the public component models only.
struct Part {
    arr: Arr,
    cost: Cost,
}

impl Part {
    fn jobs(&self, delta: u64) -> usize {
        self.arr.build().number_arrivals(Duration::from(delta))
    }
    /// The individual job costs of the first n jobs (differences of cost_of_jobs).
    fn costs(&self, n: usize) -> Vec<u64> {
        let c = self.cost.build();
        let it: Vec<u64> = c.job_cost_iter().take(n).map(u64::from).collect();
        it
    }
    fn cost_of(&self, n: usize) -> u64 {
        u64::from(self.cost.build().cost_of_jobs(n))
    }
}

enum Shape {
    Single,
    AggregateOfRbf,
    SliceOfRbf,
    AggregateOfBoxed,
    NestedAggregate,
    RefAndRc,
}

impl Monitor for C16 {
    fn id(&self) -> &'static str {
        "C16"
    }
    fn rule(&self) -> String {
        "case = 1-4 (arrival model, cost model) pairs (arrival: all deterministic models and compositions except ArrivalCurvePrefix; cost: Scalar, Multiframe, cost curve, extrapolating cost curve) wrapped as RBF / Aggregate<RBF> / Slice<RBF> / Aggregate<Box<dyn>> / nested Aggregate<Box<Aggregate>> / &RBF and Rc<RBF>; for 12 interval lengths and job limits n in {0,1,2,3,all,all+2}: service_needed = sum over parts of cost_of_jobs(number_arrivals); sum of job_cost_iter = service_needed; least_wcet_in_interval <= every job cost of every part that has jobs; service_needed_by_n_jobs non-decreasing in n, <= service_needed, = service_needed once n >= #jobs, = sum of the n largest job costs of the multiset union; per-component variant = sum of the parts' own restricted demands. Non-trivial = >= 2 parts or a non-scalar cost, and some examined interval holds >= 2 jobs; distinct = distinct (parts, wrapper).".to_string()
    }
    fn assumptions(&self) -> Vec<String> {
        vec!["component values (number_arrivals, cost_of_jobs, job_cost_iter of a single cost model) are taken from the library's component objects; their own correctness is C10/C14".to_string()]
    }
    fn cases(&self, tier: Tier) -> u64 {
        match tier {
            Tier::Quick => 150_000,
            Tier::Thorough => 2_000_000,
        }
    }
    fn required_counters(&self) -> Vec<&'static str> {
        vec!["service_needed_compared", "n_jobs_variants_compared", "per_component_variants_compared"]
    }

    fn unguarded_library_failure(&self, c: &crate::framework::Caught, rep: &mut CaseReport) -> bool {
        // this property's objects must answer every query: a library panic / runaway loop that surfaces
        // outside a guarded call (e.g. while the monitor inspects the shared cache) is a violation too
        rep.violation(
            format!("C16 kind=library-{}-outside-a-guarded-call class={}", c.kind, c.class()),
            crate::jobj! {"caught" => c.to_json(), "case" => rep.sample.clone()},
        );
        true
    }
    fn run_case(&self, _index: u64, seed: u64, _tier: Tier, rep: &mut CaseReport) {
        let mut rng = Rng::new(seed);
        let g = ArrGen { scale: *rng.pick(&[3u64, 10, 40]), allow_never: true, allow_prefix: false, allow_composite: true, allow_curve: true, max_jitter_factor: 3 };
        let shape = match rng.range(0, 5) {
            0 => Shape::Single,
            1 => Shape::AggregateOfRbf,
            2 => Shape::SliceOfRbf,
            3 => Shape::AggregateOfBoxed,
            4 => Shape::NestedAggregate,
            _ => Shape::RefAndRc,
        };
        let nparts = match shape {
            Shape::Single | Shape::RefAndRc => 1,
            // (one composite in 25 has many components)
            _ if rng.chance(1, 25) => rng.usize(17, 24),
            _ => rng.usize(1, 4),
        };
        let parts: Vec<Part> = (0..nparts).map(|_| Part { arr: g.any(&mut rng, 1), cost: gen_cost_z(&mut rng, 15) }).collect();
        let shape_name = match shape {
            Shape::Single => "RBF",
            Shape::AggregateOfRbf => "Aggregate<RBF>",
            Shape::SliceOfRbf => "Slice<RBF>",
            Shape::AggregateOfBoxed => "Aggregate<Box<dyn RequestBound>>",
            Shape::NestedAggregate => "Aggregate<Box<Aggregate<RBF>>>",
            Shape::RefAndRc => "&RBF / Rc<RBF>",
        };
        let pj = Json::Arr(parts.iter().map(|p| Json::Arr(vec![p.arr.to_json(), p.cost.to_json()])).collect());
        rep.sample = Some(jobj! {"wrapper" => shape_name, "parts_[arrival,cost]" => pj.clone()});

        let mk = |p: &Part| demand::RBF::new(p.arr.build(), p.cost.build());
        let rbfs: Vec<_> = parts.iter().map(mk).collect();
        let rbfs2: Vec<_> = parts.iter().map(mk).collect();
        // the object under test, as RequestBound (+ per-component view where it exists)
        let agg_rbf;
        let slice_rbf;
        let agg_boxed;
        let nested;
        let rc_rbf;
        let (rb, arb): (&dyn RequestBound, Option<&dyn AggregateRequestBound>) = match shape {
            Shape::Single => (&rbfs[0], None),
            Shape::AggregateOfRbf => {
                agg_rbf = demand::Aggregate::new(rbfs2);
                (&agg_rbf, Some(&agg_rbf))
            }
            Shape::SliceOfRbf => {
                slice_rbf = demand::Slice::of(&rbfs[..]);
                (&slice_rbf, Some(&slice_rbf))
            }
            Shape::AggregateOfBoxed => {
                let v: Vec<Box<dyn RequestBound>> = rbfs2.into_iter().map(|r| Box::new(r) as Box<dyn RequestBound>).collect();
                agg_boxed = demand::Aggregate::new(v);
                (&agg_boxed, Some(&agg_boxed))
            }
            Shape::NestedAggregate => {
                // split the parts into two inner aggregates
                let mut a = vec![];
                let mut b = vec![];
                for (i, r) in rbfs2.into_iter().enumerate() {
                    if i % 2 == 0 {
                        a.push(r)
                    } else {
                        b.push(r)
                    }
                }
                let v: Vec<Box<dyn RequestBound>> = vec![Box::new(demand::Aggregate::new(a)), Box::new(demand::Aggregate::new(b))];
                nested = demand::Aggregate::new(v);
                (&nested, None) // per-component view would restrict per inner aggregate, not per part
            }
            Shape::RefAndRc => {
                rc_rbf = std::rc::Rc::new(mk(&parts[0]));
                if rng.chance(1, 2) {
                    (&rc_rbf, None)
                } else {
                    (&rbfs[0], None)
                }
            }
        };

        let scale = g.scale;
        let mut deltas = vec![0, 1, 2, scale, scale + 1, 2 * scale, 3 * scale + 1];
        for _ in 0..5 {
            deltas.push(rng.range(0, 6 * scale));
        }
        let mut multi = false;
        for dl in deltas {
            let r = guard(|| {
                let d = Duration::from(dl);
                // ---- reference
                let counts: Vec<usize> = parts.iter().map(|p| p.jobs(dl)).collect();
                let want_total: u64 = parts.iter().zip(&counts).map(|(p, n)| p.cost_of(*n)).sum();
                let per_part_costs: Vec<Vec<u64>> = parts.iter().zip(&counts).map(|(p, n)| p.costs(*n)).collect();
                let mut all_costs: Vec<u64> = per_part_costs.iter().flatten().copied().collect();
                all_costs.sort_unstable_by(|a, b| b.cmp(a));
                let njobs: usize = counts.iter().sum();
                // ---- library
                let got_total = u64::from(rb.service_needed(d));
                let iter_sum: u64 = rb.job_cost_iter(d).map(u64::from).sum();
                let iter_count = rb.job_cost_iter(d).count();
                let least = u64::from(rb.least_wcet_in_interval(d));
                let mut out: Vec<(String, Json)> = vec![];
                if got_total != want_total {
                    out.push(("service_needed-differs-from-sum-of-component-costs".into(), jobj! {"delta"=>dl,"service_needed"=>got_total,"recomputed"=>want_total,"jobs_per_part"=>counts.iter().map(|x| *x as u64).collect::<Vec<u64>>()}));
                }
                if iter_sum != got_total || iter_count != njobs {
                    out.push(("job_cost_iter-does-not-sum-to-service_needed".into(), jobj! {"delta"=>dl,"sum"=>iter_sum,"items"=>iter_count,"service_needed"=>got_total,"jobs"=>njobs}));
                }
                if let Some(m) = all_costs.iter().min() {
                    if least > *m {
                        out.push(("least_wcet_in_interval-above-a-job-cost".into(), jobj! {"delta"=>dl,"least_wcet_in_interval"=>least,"smallest_job_cost"=>*m}));
                    }
                }
                let mut prev = 0u64;
                let mut nvar = 0u64;
                for n in [0usize, 1, 2, 3, njobs.saturating_sub(1), njobs, njobs + 2, usize::MAX] {
                    let got = u64::from(rb.service_needed_by_n_jobs(d, n));
                    let want: u64 = all_costs.iter().take(n).sum();
                    nvar += 1;
                    if got != want {
                        out.push(("service_needed_by_n_jobs-is-not-sum-of-n-largest".into(), jobj! {"delta"=>dl,"n"=>n,"got"=>got,"sum_of_n_largest"=>want}));
                    }
                    if got > got_total {
                        out.push(("service_needed_by_n_jobs-exceeds-service_needed".into(), jobj! {"delta"=>dl,"n"=>n,"got"=>got,"service_needed"=>got_total}));
                    }
                    if n >= njobs && got != got_total {
                        out.push(("service_needed_by_n_jobs-differs-once-n-covers-all-jobs".into(), jobj! {"delta"=>dl,"n"=>n,"got"=>got,"service_needed"=>got_total}));
                    }
                    let _ = prev;
                    prev = got;
                }
                // monotone in n (separately, on consecutive n)
                let mut last = 0;
                for n in 0..=(njobs.min(12) + 1) {
                    let got = u64::from(rb.service_needed_by_n_jobs(d, n));
                    if got < last {
                        out.push(("service_needed_by_n_jobs-decreases-in-n".into(), jobj! {"delta"=>dl,"n"=>n,"got"=>got,"previous"=>last}));
                    }
                    last = got;
                }
                let mut npc = 0u64;
                if let Some(a) = arb {
                    for n in [0usize, 1, 2, 5, usize::MAX] {
                        let got = u64::from(a.service_needed_by_n_jobs_per_component(d, n));
                        let want: u64 = per_part_costs
                            .iter()
                            .map(|cs| {
                                let mut c = cs.clone();
                                c.sort_unstable_by(|a, b| b.cmp(a));
                                c.iter().take(n).sum::<u64>()
                            })
                            .sum();
                        npc += 1;
                        if got != want {
                            out.push(("per_component-variant-differs-from-sum-of-restricted-demands".into(), jobj! {"delta"=>dl,"n"=>n,"got"=>got,"recomputed"=>want}));
                        }
                    }
                }
                (out, njobs, nvar, npc)
            });
            match r {
                Err(c) => {
                    // no value at all where the recomputation from the parts is defined
                    rep.violation(
                        format!("C16 wrapper={} kind={} class={}", shape_name, c.kind, c.class()),
                        jobj! {"parts_[arrival,cost]" => pj.clone(), "delta" => dl, "caught" => c.to_json()},
                    );
                }
                Ok((out, njobs, nvar, npc)) => {
                    rep.count("service_needed_compared", 1);
                    rep.count("n_jobs_variants_compared", nvar);
                    rep.count("per_component_variants_compared", npc);
                    if njobs >= 2 {
                        multi = true;
                    }
                    for (kind, d) in out {
                        rep.violation(format!("C16 wrapper={} kind={}", shape_name, kind), jobj! {"parts_[arrival,cost]" => pj.clone(), "observation" => d});
                    }
                }
            }
        }
        if multi && (nparts >= 2 || !matches!(parts[0].cost, Cost::Scalar(_))) {
            let mut w = vec![shape_name.len() as u64];
            for p in &parts {
                p.arr.words(&mut w);
                p.cost.words(&mut w);
            }
            rep.nontrivial_key(&w);
        }
    }
}
