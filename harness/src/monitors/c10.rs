//! C10 — arrival models never undercount the event processes they describe.

use response_time_analysis::arrival::ArrivalBound;
use response_time_analysis::time::Duration;

use crate::framework::{guard, CaseReport, Monitor, Tier};
use crate::jobj;
use crate::model::arr::{max_in_window, Arr, ArrGen, Base, Comp, SeqMode};
use crate::rng::Rng;

pub struct C10;

pub fn table(ab: &dyn ArrivalBound, upto: u64) -> Vec<u64> {
    (0..=upto).map(|x| ab.number_arrivals(Duration::from(x)) as u64).collect()
}

pub fn horizon_of(arr: &Arr) -> u64 {
    let mut h = 8u64;
    for c in arr.components() {
        let b = match &c.base {
            Base::Periodic(t) | Base::MinSep(t) => *t,
            Base::Dmin(v) => *v.last().unwrap(),
        };
        h = h.max(3 * b + c.jitter + 3);
    }
    h.min(1200)
}

/// All sequences of a small component on a short horizon: gaps in
/// [earliest, earliest+2], delays in [0, jitter], at most `n` events.
fn enumerate_sequences(c: &Comp, n: usize, out: &mut Vec<Vec<u64>>) {
    fn earliest(c: &Comp, hist: &[u64]) -> u64 {
        let k = hist.len();
        match &c.base {
            Base::Periodic(t) | Base::MinSep(t) => hist[k - 1] + *t,
            Base::Dmin(v) => {
                let mut lo = hist[k - 1];
                for m in 2..=(v.len() + 1).min(k + 1) {
                    lo = lo.max(hist[k + 1 - m] + v[m - 2]);
                }
                lo
            }
        }
    }
    fn rec(c: &Comp, n: usize, arrivals: &mut Vec<u64>, releases: &mut Vec<u64>, out: &mut Vec<Vec<u64>>) {
        if arrivals.len() == n {
            let mut r = releases.clone();
            r.sort_unstable();
            out.push(r);
            return;
        }
        let base = if arrivals.is_empty() { c.jitter } else { earliest(c, arrivals) };
        let extra = if matches!(c.base, Base::Periodic(_)) || arrivals.is_empty() { 0 } else { 2 };
        for g in 0..=extra {
            let a = base + g;
            for dl in 0..=c.jitter {
                arrivals.push(a);
                releases.push(a + dl);
                rec(c, n, arrivals, releases, out);
                arrivals.pop();
                releases.pop();
            }
        }
    }
    rec(c, n, &mut vec![], &mut vec![], out);
}

impl Monitor for C10 {
    fn id(&self) -> &'static str {
        "C10"
    }
    fn rule(&self) -> String {
        "case = one arrival-model instance (Periodic, Sporadic with jitter up to 3T, bursty/plateaued Curve, ExtrapolatingCurve, ArrivalCurvePrefix, Never; Propagated, clone_with_jitter (also twice), Vec<Box<dyn>>, sum_of, Rc<[..]> compositions, nesting depth <= 2). Event sequences are generated from the independent generative semantics (dense from a common start, dense with per-component phases, randomised gaps and delays; for small Sporadic/Curve components ALL sequences of <= 4 events with gaps up to earliest+2 and every delay), and every window anchored at an event is compared with number_arrivals; number_arrivals(0)=0 and monotonicity are checked on [0,H]; for Periodic/Sporadic the bound must be attained by the dense sequence and be sub-additive; adding jitter a then b must equal adding a+b pointwise. Non-trivial = the instance has jitter, a burst or is a composition, and some checked window held >= 2 events; distinct = distinct instance.".to_string()
    }
    fn assumptions(&self) -> Vec<String> {
        vec![
            "admissible sequences as in DESIGN.md §2 (generative); delta-min prefixes are non-decreasing, super-additive and end with a value > 0".to_string(),
            "ArrivalCurvePrefix instances are derived from a realisable delta-min vector and start with a step at interval length 1".to_string(),
        ]
    }
    fn cases(&self, tier: Tier) -> u64 {
        match tier {
            Tier::Quick => 100_000,
            Tier::Thorough => 1_500_000,
        }
    }
    fn required_counters(&self) -> Vec<&'static str> {
        vec!["windows_checked", "sequences_generated", "attainment_points_checked", "jitter_composition_points_compared", "sequences_enumerated_exhaustively"]
    }

    fn unguarded_library_failure(&self, c: &crate::framework::Caught, rep: &mut CaseReport) -> bool {
        // this property's objects must answer every query: a library panic / runaway loop that surfaces
        // outside a guarded call (e.g. while the monitor inspects the shared cache) is a violation too
        rep.violation(
            format!("C10 kind=library-{}-outside-a-guarded-call class={}", c.kind, c.class()),
            crate::jobj! {"caught" => c.to_json(), "case" => rep.sample.clone()},
        );
        true
    }
    fn run_case(&self, _index: u64, seed: u64, _tier: Tier, rep: &mut CaseReport) {
        let mut rng = Rng::new(seed);
        let g = ArrGen {
            scale: *rng.pick(&[4u64, 10, 40, 150]),
            allow_never: true,
            allow_prefix: true,
            allow_composite: true,
            allow_curve: true,
            max_jitter_factor: 3,
        };
        let arr = g.any(&mut rng, 2);
        rep.sample = Some(arr.to_json());
        let shape = arr.shape();
        let h = horizon_of(&arr);
        let built = match guard(|| arr.build()) {
            Ok(b) => b,
            Err(c) => {
                rep.violation(format!("C10 impl={} kind={}-in-constructor class={}", shape, c.kind, c.class()), jobj! {"model"=>arr.to_json(),"caught"=>c.to_json()});
                return;
            }
        };
        let f = match guard(|| table(&*built, h)) {
            Ok(t) => t,
            Err(c) => {
                rep.violation(format!("C10 impl={} kind={}-in-number_arrivals class={}", shape, c.kind, c.class()), jobj! {"model"=>arr.to_json(),"caught"=>c.to_json()});
                return;
            }
        };
        rep.count("instances", 1);
        if f[0] != 0 {
            rep.violation(format!("C10 impl={} kind=nonzero-at-zero", shape), jobj! {"model"=>arr.to_json(),"number_arrivals(0)"=>f[0]});
        }
        for x in 1..f.len() {
            if f[x] < f[x - 1] {
                rep.violation(format!("C10 impl={} kind=decreases", shape), jobj! {"model"=>arr.to_json(),"delta"=>x,"value"=>f[x],"previous"=>f[x-1]});
                break;
            }
        }
        rep.count("monotonicity_points_checked", f.len() as u64);

        // ---- generated sequences
        let comps = arr.components();
        let jmax = arr.max_jitter();
        let mut seqs: Vec<(String, Vec<u64>)> = vec![];
        let start = jmax + 2;
        // dense, common start
        let mut all = vec![];
        for c in &comps {
            all.extend(c.sequence(&mut rng, SeqMode::Dense, start, h, 2500));
        }
        all.sort_unstable();
        seqs.push(("dense-synchronous".to_string(), all));
        // dense with phases
        let mut all = vec![];
        for c in &comps {
            let ph = rng.range(0, 6);
            all.extend(c.sequence(&mut rng, SeqMode::Dense, start + ph, h, 300));
        }
        all.sort_unstable();
        seqs.push(("dense-phased".to_string(), all));
        for _ in 0..3 {
            let mut all = vec![];
            for c in &comps {
                all.extend(c.sequence(&mut rng, SeqMode::Random, start, h, 300));
            }
            all.sort_unstable();
            seqs.push(("random".to_string(), all));
        }
        // exhaustive enumeration for small single components
        if comps.len() == 1 && comps[0].jitter <= 2 {
            let small = match &comps[0].base {
                Base::Periodic(t) | Base::MinSep(t) => *t <= 5,
                Base::Dmin(v) => *v.last().unwrap() <= 8 && v.len() <= 4,
            };
            if small {
                let mut out = vec![];
                enumerate_sequences(&comps[0], 4, &mut out);
                rep.count("sequences_enumerated_exhaustively", out.len() as u64);
                for s in out {
                    seqs.push(("enumerated".to_string(), s));
                }
            }
        }
        let mut multi = false;
        for (kind, seq) in &seqs {
            rep.count("sequences_generated", 1);
            rep.count("events_generated", seq.len() as u64);
            // the semantics' own admissibility checker must accept what the generator produced
            for i in 0..seq.len() {
                for j in i..seq.len() {
                    let span = seq[j] - seq[i] + 1;
                    if span as usize >= f.len() {
                        break;
                    }
                    let n = (j - i + 1) as u64;
                    rep.count("windows_checked", 1);
                    if n >= 2 {
                        multi = true;
                    }
                    if n > f[span as usize] {
                        rep.violation(
                            format!("C10 impl={} kind=window-holds-more-events-than-number_arrivals", shape),
                            jobj! {"model"=>arr.to_json(),"sequence_kind"=>kind,"sequence"=>seq,"window_start"=>seq[i],"window_length"=>span,
                                   "events_in_window"=>n,"number_arrivals"=>f[span as usize]},
                        );
                        return;
                    }
                }
            }
        }
        let special = jmax > 0 || !arr.is_leaf() || comps.iter().any(|c| matches!(&c.base, Base::Dmin(v) if v[0] == 0 || v.windows(2).any(|w| w[0] == w[1])));
        if multi && special {
            let mut w = vec![];
            arr.words(&mut w);
            rep.nontrivial_key(&w);
        }

        // ---- Periodic / Sporadic: attained and sub-additive
        let ps = match &arr {
            Arr::Periodic { .. } | Arr::Sporadic { .. } => true,
            Arr::Jittered { inner, .. } | Arr::Propagated { inner, .. } => matches!(**inner, Arr::Periodic { .. } | Arr::Sporadic { .. }),
            _ => false,
        };
        if ps {
            let dense = &seqs[0].1;
            let truncated = dense.len() >= 2500;
            for dl in 0..f.len().min(400) {
                // windows must lie inside the generated horizon
                let got = max_in_window(dense, dl as u64) as u64;
                rep.count("attainment_points_checked", 1);
                if got != f[dl] && (dl as u64) < h / 2 && !truncated {
                    rep.violation(
                        format!("C10 impl={} kind=bound-not-attained-by-densest-sequence", shape),
                        jobj! {"model"=>arr.to_json(),"delta"=>dl,"number_arrivals"=>f[dl],"max_events_in_any_window_of_dense_sequence"=>got,"sequence"=>dense},
                    );
                    break;
                }
            }
            // very long windows (up to 2^62): the number of events of the dense sequence in a window
            // anchored at its start is ceil((delta + J) / T), computed exactly in 128-bit arithmetic
            if let [c] = &comps[..] {
                let (t, j) = match &c.base {
                    Base::Periodic(t) | Base::MinSep(t) => (*t as u128, c.jitter as u128),
                    _ => (0, 0),
                };
                if t > 0 {
                    for _ in 0..12 {
                        let dl = rng.range(1u64 << 33, 1u64 << 62);
                        let events = (dl as u128 + j + t - 1) / t;
                        match guard(|| built.number_arrivals(Duration::from(dl)) as u128) {
                            Ok(got) => {
                                rep.count("very_long_windows_checked", 1);
                                if got != events {
                                    let dir = if got < events { "window-holds-more-events-than-number_arrivals" } else { "bound-not-attained-by-densest-sequence" };
                                    rep.violation(
                                        format!("C10 impl={} kind={} (very long window)", shape, dir),
                                        jobj! {"model"=>arr.to_json(),"delta"=>dl,"number_arrivals"=>got as u64,"events_of_dense_sequence_in_window"=>events as u64},
                                    );
                                    break;
                                }
                            }
                            Err(c) => {
                                rep.violation(format!("C10 impl={} kind={}-in-number_arrivals class={} (very long window)", shape, c.kind, c.class()), jobj! {"model"=>arr.to_json(),"delta"=>dl,"caught"=>c.to_json()});
                                break;
                            }
                        }
                    }
                }
            }
            // one-shot-like models: a period close to the largest representable time value
            if matches!(arr, Arr::Periodic { .. } | Arr::Sporadic { .. }) && rng.chance(1, 4) {
                let t = u64::MAX - rng.range(0, 1u64 << 40);
                let j = rng.range(0, 1000);
                let big = if rng.chance(1, 2) { Arr::Periodic { t } } else { Arr::Sporadic { t, j } };
                let jj = if matches!(big, Arr::Periodic { .. }) { 0 } else { j };
                for dl in [1u64, 2, 1000, 1u64 << 40, (1u64 << 62) + rng.range(0, 1000)] {
                    let events = (dl as u128 + jj as u128 + t as u128 - 1) / t as u128;
                    match guard(|| big.build().number_arrivals(Duration::from(dl)) as u128) {
                        Ok(got) => {
                            rep.count("huge_period_points_checked", 1);
                            if got != events {
                                rep.violation(format!("C10 impl={} kind=wrong-count (period close to u64::MAX)", big.kind()), jobj! {"model"=>big.to_json(),"delta"=>dl,"number_arrivals"=>got as u64,"events"=>events as u64});
                            }
                        }
                        Err(c) => rep.violation(format!("C10 impl={} kind={}-in-number_arrivals class={} (period close to u64::MAX)", big.kind(), c.kind, c.class()), jobj! {"model"=>big.to_json(),"delta"=>dl,"caught"=>c.to_json()}),
                    }
                }
            }
            'sub: for a in 1..f.len().min(120) {
                for b in a..f.len().min(120) {
                    if a + b < f.len() {
                        rep.count("subadditivity_pairs_checked", 1);
                        if f[a + b] > f[a] + f[b] {
                            rep.violation(
                                format!("C10 impl={} kind=not-subadditive", shape),
                                jobj! {"model"=>arr.to_json(),"a"=>a,"b"=>b,"f(a+b)"=>f[a+b],"f(a)"=>f[a],"f(b)"=>f[b]},
                            );
                            break 'sub;
                        }
                    }
                }
            }
        }

        // ---- arrival::Curve collected from an iterator (FromIterator makes the distances monotonic)
        {
            use std::iter::FromIterator;
            let n = rng.usize(1, 6);
            let mut raw: Vec<u64> = (0..n).map(|_| rng.range(0, 3 * g.scale)).collect();
            if raw.iter().all(|x| *x == 0) {
                raw[n - 1] = 1;
            }
            let r = guard(|| {
                let c = response_time_analysis::arrival::Curve::from_iter(raw.iter().map(|x| Duration::from(*x)));
                let hmax = 4 * raw.iter().max().unwrap() + 4;
                (table(&c, hmax), (2..=n + 1).map(|k| u64::from(c.min_distance(k))).collect::<Vec<u64>>())
            });
            rep.count("from_iter_curves_checked", 1);
            match r {
                Err(c) => rep.violation(format!("C10 impl=Curve::from_iter kind={} class={}", c.kind, c.class()), jobj! {"input"=>&raw,"caught"=>c.to_json()}),
                Ok((f, dist)) => {
                    let mut hull = raw.clone();
                    for i in 1..n {
                        hull[i] = hull[i].max(hull[i - 1]);
                    }
                    if dist != hull {
                        rep.violation("C10 impl=Curve::from_iter kind=distances-are-not-the-running-maximum-of-the-input".to_string(), jobj! {"input"=>&raw,"min_distances"=>&dist,"running_maximum"=>&hull});
                    }
                    if f[0] != 0 || (1..f.len()).any(|x| f[x] < f[x - 1]) {
                        rep.violation("C10 impl=Curve::from_iter kind=not-zero-at-zero-or-decreases".to_string(), jobj! {"input"=>&raw});
                    }
                    // every sequence respecting the (hull) distances is bounded
                    let comp = Comp { base: Base::Dmin(hull.clone()), jitter: 0 };
                    let seq = comp.sequence(&mut rng, SeqMode::Dense, 2, f.len() as u64 - 1, 300);
                    'w2: for i in 0..seq.len() {
                        for j in i..seq.len() {
                            let span = seq[j] - seq[i] + 1;
                            if span as usize >= f.len() {
                                break;
                            }
                            if (j - i + 1) as u64 > f[span as usize] {
                                rep.violation("C10 impl=Curve::from_iter kind=window-holds-more-events-than-number_arrivals".to_string(), jobj! {"input"=>&raw,"sequence"=>&seq,"window_start"=>seq[i],"window_length"=>span,"events"=>j-i+1,"number_arrivals"=>f[span as usize]});
                                break 'w2;
                            }
                        }
                    }
                }
            }
        }

        // ---- jitter composition
        let (a, b) = (rng.range(0, g.scale * 2), rng.range(0, g.scale * 2));
        let two = guard(|| {
            let x = built.clone_with_jitter(Duration::from(a)).clone_with_jitter(Duration::from(b));
            table(&*x, h)
        });
        let one = guard(|| table(&*built.clone_with_jitter(Duration::from(a + b)), h));
        match (two, one) {
            (Ok(t2), Ok(t1)) => {
                rep.count("jitter_composition_points_compared", t1.len() as u64);
                if let Some(x) = (0..t1.len()).find(|x| t1[*x] != t2[*x]) {
                    rep.violation(
                        format!("C10 impl={} kind=jitter-a-then-b-differs-from-a-plus-b", shape),
                        jobj! {"model"=>arr.to_json(),"a"=>a,"b"=>b,"delta"=>x,"a_then_b"=>t2[x],"a_plus_b"=>t1[x]},
                    );
                }
                // and the jittered clone must still bound delayed sequences
                let mut delayed: Vec<u64> = seqs[0].1.iter().map(|t| t + rng.range(0, a + b)).collect();
                delayed.sort_unstable();
                'outer: for i in 0..delayed.len() {
                    for j in i..delayed.len() {
                        let span = delayed[j] - delayed[i] + 1;
                        if span as usize >= t1.len() {
                            break;
                        }
                        rep.count("windows_checked", 1);
                        if (j - i + 1) as u64 > t1[span as usize] {
                            rep.violation(
                                format!("C10 impl=clone_with_jitter({}) kind=window-holds-more-events-than-number_arrivals", shape),
                                jobj! {"model"=>arr.to_json(),"added_jitter"=>a+b,"sequence"=>&delayed,"window_start"=>delayed[i],"window_length"=>span,
                                       "events_in_window"=>j-i+1,"number_arrivals"=>t1[span as usize]},
                            );
                            break 'outer;
                        }
                    }
                }
            }
            (Err(c), _) | (_, Err(c)) => rep.violation(
                format!("C10 impl={} kind={}-in-clone_with_jitter class={}", shape, c.kind, c.class()),
                jobj! {"model"=>arr.to_json(),"a"=>a,"b"=>b,"caught"=>c.to_json()},
            ),
        }
    }
}
