//! SplitMix64 PRNG. Every case gets its own stream derived from
//! (VERIF_SEED, property id, case index), so that a case can be replayed
//! from its `case_seed` alone, independent of thread scheduling.

#[derive(Clone, Debug)]
pub struct Rng {
    state: u64,
}

pub fn mix(mut z: u64) -> u64 {
    z = z.wrapping_add(0x9E37_79B9_7F4A_7C15);
    z = (z ^ (z >> 30)).wrapping_mul(0xBF58_476D_1CE4_E5B9);
    z = (z ^ (z >> 27)).wrapping_mul(0x94D0_49BB_1331_11EB);
    z ^ (z >> 31)
}

pub fn hash_str(s: &str) -> u64 {
    let mut h: u64 = 0xcbf2_9ce4_8422_2325;
    for b in s.bytes() {
        h ^= b as u64;
        h = h.wrapping_mul(0x0000_0100_0000_01B3);
    }
    h
}

/// FNV-style hash over u64 words (used for "distinct case" keys).
pub fn hash_words(words: &[u64]) -> u64 {
    let mut h: u64 = 0x1234_5678_9abc_def1;
    for w in words {
        h = mix(h ^ *w);
    }
    h
}

pub fn case_seed(seed: u64, property: &str, index: u64) -> u64 {
    mix(mix(seed ^ hash_str(property)).wrapping_add(index.wrapping_mul(0xD6E8_FEB8_6659_FD93)))
}

impl Rng {
    pub fn new(seed: u64) -> Rng {
        Rng { state: mix(seed) }
    }

    pub fn next_u64(&mut self) -> u64 {
        self.state = self.state.wrapping_add(0x9E37_79B9_7F4A_7C15);
        let mut z = self.state;
        z = (z ^ (z >> 30)).wrapping_mul(0xBF58_476D_1CE4_E5B9);
        z = (z ^ (z >> 27)).wrapping_mul(0x94D0_49BB_1331_11EB);
        z ^ (z >> 31)
    }

    /// Uniform in [lo, hi] (inclusive). Requires lo <= hi.
    pub fn range(&mut self, lo: u64, hi: u64) -> u64 {
        debug_assert!(lo <= hi);
        let span = hi - lo;
        if span == u64::MAX {
            return self.next_u64();
        }
        lo + self.next_u64() % (span + 1)
    }

    pub fn usize(&mut self, lo: usize, hi: usize) -> usize {
        self.range(lo as u64, hi as u64) as usize
    }

    /// True with probability num/den.
    pub fn chance(&mut self, num: u64, den: u64) -> bool {
        self.next_u64() % den < num
    }

    pub fn f64(&mut self) -> f64 {
        (self.next_u64() >> 11) as f64 / (1u64 << 53) as f64
    }

    pub fn pick<'a, T>(&mut self, xs: &'a [T]) -> &'a T {
        &xs[self.usize(0, xs.len() - 1)]
    }

    pub fn shuffle<T>(&mut self, xs: &mut [T]) {
        for i in (1..xs.len()).rev() {
            let j = self.usize(0, i);
            xs.swap(i, j);
        }
    }

    /// Log-uniform-ish value in [lo, hi]: picks a magnitude first, so small
    /// values are as likely as large ones.
    pub fn log_range(&mut self, lo: u64, hi: u64) -> u64 {
        debug_assert!(lo >= 1 && lo <= hi);
        let lb = 64 - lo.leading_zeros() as u64;
        let hb = 64 - hi.leading_zeros() as u64;
        let b = self.range(lb, hb);
        let l = if b == 0 { 0 } else { 1u64 << (b - 1) };
        let h = if b >= 64 { u64::MAX } else { (1u64 << b) - 1 };
        let l = l.max(lo);
        let h = h.min(hi);
        if l > h {
            self.range(lo, hi)
        } else {
            self.range(l, h)
        }
    }

    pub fn fork(&mut self) -> Rng {
        Rng::new(self.next_u64())
    }
}
