//! Workload driver, verdict discipline, evidence and replay files.
//!
//! A *monitor* generates one case per call from a per-case PRNG stream, runs
//! the real library code on it while observing, and reports violations,
//! counters, and whether the case was non-trivial. The driver runs cases on
//! all cores, merges what was observed, matches violations against the
//! committed known-findings list and prints the verdict lines.

use std::any::Any;
use std::cell::RefCell;
use std::collections::{BTreeMap, HashSet};
use std::panic::{catch_unwind, AssertUnwindSafe};
use std::sync::atomic::{AtomicBool, AtomicU64, Ordering};
use std::sync::Mutex;
use std::time::Instant;

use response_time_analysis::verif_hooks as hooks;

use crate::json::{self, Json};
use crate::rng;

#[derive(Clone, Copy, Debug, PartialEq, Eq)]
pub enum Tier {
    Quick,
    Thorough,
}

impl Tier {
    pub fn name(self) -> &'static str {
        match self {
            Tier::Quick => "quick",
            Tier::Thorough => "thorough",
        }
    }
}

/// Which build profile this binary was compiled with.
pub fn profile() -> &'static str {
    if cfg!(debug_assertions) {
        "checked"
    } else {
        "release"
    }
}

#[derive(Clone, Debug)]
pub struct Violation {
    /// Names the failing class of input and the failure kind; known
    /// findings are keyed on this exact string.
    pub signature: String,
    /// Everything needed to understand the failing observation.
    pub detail: Json,
}

#[derive(Default)]
pub struct CaseReport {
    pub violations: Vec<Violation>,
    /// Keys (hashes of a canonical encoding) of the distinct non-trivial
    /// cases observed while running this case.
    pub nontrivial: Vec<u64>,
    pub sample: Option<Json>,
    pub counters: BTreeMap<String, u64>,
    pub maxima: BTreeMap<String, u64>,
    pub inconclusive: Option<String>,
}

impl CaseReport {
    pub fn count(&mut self, key: &str, n: u64) {
        if n > 0 || !self.counters.contains_key(key) {
            *self.counters.entry(key.to_string()).or_insert(0) += n;
        }
    }
    pub fn max(&mut self, key: &str, v: u64) {
        let e = self.maxima.entry(key.to_string()).or_insert(0);
        if v > *e {
            *e = v;
        }
    }
    pub fn violation(&mut self, signature: impl Into<String>, detail: Json) {
        // keep at most a handful per case; one is enough for the verdict
        if self.violations.len() < 8 {
            self.violations.push(Violation {
                signature: signature.into(),
                detail,
            });
        }
    }
    pub fn nontrivial_key(&mut self, words: &[u64]) {
        self.nontrivial.push(rng::hash_words(words));
    }
}

pub trait Monitor: Sync {
    fn id(&self) -> &'static str;
    /// How cases are generated and what makes one non-trivial / distinct.
    fn rule(&self) -> String;
    fn assumptions(&self) -> Vec<String>;
    /// Number of cases for the tier.
    fn cases(&self, tier: Tier) -> u64;
    /// Generate, execute and check one case.
    fn run_case(&self, case_index: u64, case_seed: u64, tier: Tier, rep: &mut CaseReport);
    /// A library panic / exhausted loop budget reached OUTSIDE a guarded call ended the case. Monitors
    /// whose property forbids such a failure report a violation here and return true; the default is
    /// to count the abandoned case (the failure itself is C20's to decide).
    fn unguarded_library_failure(&self, _c: &Caught, _rep: &mut CaseReport) -> bool {
        false
    }
    /// Counters that must be non-zero for the run to count as having observed
    /// anything (otherwise the verdict is inconclusive).
    fn required_counters(&self) -> Vec<&'static str> {
        vec![]
    }
    /// Called once before any case with the run's seed (also on replay, with the recorded seed).
    fn prepare(&self, _seed: u64) {}
    /// True if this tier enumerates a finite space completely.
    fn exhaustive(&self, _tier: Tier) -> bool {
        false
    }
}

// ------------------------------------------------------------ panic capture

#[derive(Clone, Debug)]
pub struct Caught {
    /// "fuel" if the armed iteration budget ran out, else "panic".
    pub kind: &'static str,
    pub message: String,
    pub location: String,
}

impl Caught {
    /// Short class used in signatures: message without numbers, plus file.
    pub fn class(&self) -> String {
        let mut msg: String = self
            .message
            .chars()
            .map(|c| if c.is_ascii_digit() { '#' } else { c })
            .collect();
        while msg.contains("##") {
            msg = msg.replace("##", "#");
        }
        let msg: String = msg.chars().take(80).collect();
        let file = self.location.split(':').next().unwrap_or("?");
        let file = file.rsplit("/repo/").next().unwrap_or(file);
        format!("{}@{}", msg, file)
    }
    pub fn to_json(&self) -> Json {
        crate::jobj! {"kind" => self.kind, "message" => &self.message, "location" => &self.location}
    }
}

thread_local! {
    static LAST_PANIC: RefCell<Option<(String, String)>> = const { RefCell::new(None) };
}

pub fn install_quiet_panic_hook() {
    std::panic::set_hook(Box::new(|info| {
        let loc = info
            .location()
            .map(|l| format!("{}:{}:{}", l.file(), l.line(), l.column()))
            .unwrap_or_else(|| "?".to_string());
        let msg = if let Some(s) = info.payload().downcast_ref::<&str>() {
            s.to_string()
        } else if let Some(s) = info.payload().downcast_ref::<String>() {
            s.clone()
        } else if let Some(f) = info.payload().downcast_ref::<hooks::FuelExhausted>() {
            format!("fuel exhausted at {}", f.site)
        } else {
            "non-string panic payload".to_string()
        };
        LAST_PANIC.with(|p| *p.borrow_mut() = Some((msg, loc)));
    }));
}

fn caught_from(payload: Box<dyn Any + Send>) -> Caught {
    let (message, location) = LAST_PANIC
        .with(|p| p.borrow_mut().take())
        .unwrap_or_else(|| ("?".to_string(), "?".to_string()));
    if let Some(f) = payload.downcast_ref::<hooks::FuelExhausted>() {
        Caught {
            kind: "fuel",
            message: format!("fuel exhausted at {}", f.site),
            location,
        }
    } else {
        Caught {
            kind: "panic",
            message,
            location,
        }
    }
}

/// Default iteration budget for a guarded library call: about five times the largest count any
/// legitimate call needed on the unchanged tree (120 000 in the thorough tiers, reported in the evidence of every run as
/// `max_instrumented_loop_iterations_in_one_guarded_library_call`), small enough that a runaway loop
/// whose iterations get more expensive as it proceeds still ends within a minute.
pub const DEFAULT_FUEL: u64 = 600_000;

/// Run library code with panics captured and the loop budget armed.
pub static MAX_TICKS_PER_CALL: AtomicU64 = AtomicU64::new(0);

thread_local! {
    /// Loop budget of the current case for library code that runs OUTSIDE a guarded call (model
    /// construction, reference evaluators that query library models): (budget left, tick count when armed).
    static OUTER_FUEL: std::cell::Cell<Option<(u64, u64)>> = const { std::cell::Cell::new(None) };
}

/// Budget for all unguarded library work of one case (see `OUTER_FUEL`).
pub const CASE_FUEL: u64 = 6_000_000;

fn arm_outer(fuel: Option<u64>) {
    match fuel {
        Some(n) => {
            OUTER_FUEL.with(|o| o.set(Some((n, hooks::ticks()))));
            hooks::set_fuel(Some(n));
        }
        None => {
            OUTER_FUEL.with(|o| o.set(None));
            hooks::set_fuel(None);
        }
    }
}

pub fn guard_fuel<T>(fuel: u64, f: impl FnOnce() -> T) -> Result<T, Caught> {
    let before = hooks::ticks();
    // what is left of the case's outer budget (ticks inside guarded calls do not count against it)
    let outer_left = OUTER_FUEL.with(|o| o.get()).map(|(left, mark)| left.saturating_sub(before.wrapping_sub(mark)));
    hooks::set_fuel(Some(fuel));
    let r = catch_unwind(AssertUnwindSafe(f));
    match outer_left {
        Some(left) => arm_outer(Some(left)),
        None => hooks::set_fuel(None),
    }
    let used = hooks::ticks().wrapping_sub(before);
    if r.is_ok() {
        MAX_TICKS_PER_CALL.fetch_max(used, Ordering::Relaxed);
    }
    r.map_err(caught_from)
}

pub fn guard<T>(f: impl FnOnce() -> T) -> Result<T, Caught> {
    guard_fuel(DEFAULT_FUEL, f)
}

// ------------------------------------------------------------ known findings

#[derive(Clone, Debug)]
pub struct KnownFinding {
    pub property: String,
    pub signature: String,
    pub status: String,
    pub what: String,
}

pub fn load_known_findings(path: &str) -> Result<Vec<KnownFinding>, String> {
    let text = match std::fs::read_to_string(path) {
        Ok(t) => t,
        Err(_) => return Ok(vec![]),
    };
    let j = json::parse(&text)?;
    let mut out = vec![];
    let arr = j
        .get("findings")
        .and_then(|a| a.as_arr())
        .ok_or("known_findings.json: missing 'findings' array")?;
    for e in arr {
        let s = |k: &str| e.get(k).and_then(|v| v.as_str()).unwrap_or("").to_string();
        out.push(KnownFinding {
            property: s("property"),
            signature: s("signature"),
            status: s("status"),
            what: s("what"),
        });
    }
    Ok(out)
}

// ------------------------------------------------------------ driver

pub struct RunConfig {
    pub tier: Tier,
    pub seed: u64,
    pub cases_override: Option<u64>,
    pub threads: usize,
    pub max_seconds: f64,
    pub verif_dir: String,
    pub write_evidence: bool,
}

pub struct RunSummary {
    pub exit_code: i32,
}

struct Merged {
    counters: BTreeMap<String, u64>,
    maxima: BTreeMap<String, u64>,
    nontrivial: HashSet<u64>,
    samples: Vec<Json>,
    violations: Vec<(u64, u64, Violation)>, // (case index, case seed, violation)
    inconclusive: Vec<String>,
    evaluations: u64,
}

pub fn run_one_case(mon: &dyn Monitor, case_index: u64, case_seed: u64, tier: Tier) -> CaseReport {
    let mut rep = CaseReport::default();
    arm_outer(Some(CASE_FUEL));
    let r = catch_unwind(AssertUnwindSafe(|| mon.run_case(case_index, case_seed, tier, &mut rep)));
    arm_outer(None);
    hooks::set_search_observer(None);
    hooks::set_item_observer(None);
    if let Err(p) = r {
        let c = caught_from(p);
        if c.kind == "fuel" {
            // a library loop that never ends, reached outside a guarded call (e.g. while a model is
            // being constructed): the case is abandoned; termination itself is C20's claim
            if !mon.unguarded_library_failure(&c, &mut rep) {
                rep.count("cases_abandoned:library_loop_budget_exhausted_outside_a_guarded_call (decided by C20)", 1);
            }
        } else if c.location.starts_with("/repo/src/") {
            if !mon.unguarded_library_failure(&c, &mut rep) {
                rep.count("cases_abandoned:library_panic_outside_a_guarded_call (decided by C20)", 1);
            }
        } else {
            rep.inconclusive = Some(format!(
                "harness panic (not a library event): {} at {}",
                c.message, c.location
            ));
        }
    }
    rep
}

pub fn run(mon: &dyn Monitor, cfg: &RunConfig) -> RunSummary {
    let started = Instant::now();
    mon.prepare(cfg.seed);
    let total = cfg.cases_override.unwrap_or_else(|| mon.cases(cfg.tier));
    let next = AtomicU64::new(0);
    let stop = AtomicBool::new(false);
    let merged = Mutex::new(Merged {
        counters: BTreeMap::new(),
        maxima: BTreeMap::new(),
        nontrivial: HashSet::new(),
        samples: vec![],
        violations: vec![],
        inconclusive: vec![],
        evaluations: 0,
    });

    // Wall-clock watchdog: a case that neither returns nor exhausts the loop budget (a loop
    // without a hook) must not hang the check. Its firing is INCONCLUSIVE, never a violation.
    let in_flight: Vec<AtomicU64> = (0..cfg.threads).map(|_| AtomicU64::new(u64::MAX)).collect();
    let all_done = AtomicBool::new(false);
    let slot_counter = AtomicU64::new(0);
    let violation_count = AtomicU64::new(0);
    let known_signatures: HashSet<String> = load_known_findings(&format!("{}/known_findings.json", cfg.verif_dir))
        .unwrap_or_default()
        .into_iter()
        .filter(|k| k.property == mon.id() && k.status == "known")
        .map(|k| k.signature)
        .collect();
    std::thread::scope(|scope| {
        {
            let (in_flight, all_done) = (&in_flight, &all_done);
            let id = mon.id();
            let seed = cfg.seed;
            let deadline = cfg.max_seconds + 120.0;
            scope.spawn(move || {
                let mut last_progress = Instant::now();
                let mut last_snapshot: Vec<u64> = vec![];
                loop {
                    std::thread::sleep(std::time::Duration::from_millis(200));
                    if all_done.load(Ordering::Relaxed) {
                        return;
                    }
                    let snap: Vec<u64> = in_flight.iter().map(|a| a.load(Ordering::Relaxed)).collect();
                    if snap != last_snapshot {
                        last_snapshot = snap;
                        last_progress = Instant::now();
                    }
                    // no case finished anywhere for 90 s, or the whole run is far beyond its cap
                    if last_progress.elapsed().as_secs_f64() > 90.0 || started.elapsed().as_secs_f64() > deadline {
                        let stuck: Vec<String> = last_snapshot
                            .iter()
                            .filter(|i| **i != u64::MAX)
                            .map(|i| format!("{} (case_seed {})", i, rng::case_seed(seed, id, *i)))
                            .collect();
                        println!(
                            "INCONCLUSIVE property={} reason=wall-clock watchdog fired: no case completed for 90 s (cases in flight: {}); a computation neither returned nor exhausted the loop budget",
                            id,
                            stuck.join(", ")
                        );
                        std::process::exit(2);
                    }
                }
            });
        }
        let mut workers = vec![];
        for _ in 0..cfg.threads {
            workers.push(scope.spawn(|| {
                let my_slot = slot_counter.fetch_add(1, Ordering::Relaxed) as usize;
                let mut local = Merged {
                    counters: BTreeMap::new(),
                    maxima: BTreeMap::new(),
                    nontrivial: HashSet::new(),
                    samples: vec![],
                    violations: vec![],
                    inconclusive: vec![],
                    evaluations: 0,
                };
                loop {
                    if stop.load(Ordering::Relaxed) {
                        break;
                    }
                    let i = next.fetch_add(1, Ordering::Relaxed);
                    if i >= total {
                        break;
                    }
                    if started.elapsed().as_secs_f64() > cfg.max_seconds {
                        stop.store(true, Ordering::Relaxed);
                        break;
                    }
                    let cs = rng::case_seed(cfg.seed, mon.id(), i);
                    in_flight[my_slot].store(i, Ordering::Relaxed);
                    let rep = run_one_case(mon, i, cs, cfg.tier);
                    local.evaluations += 1;
                    for (k, v) in rep.counters {
                        *local.counters.entry(k).or_insert(0) += v;
                    }
                    for (k, v) in rep.maxima {
                        let e = local.maxima.entry(k).or_insert(0);
                        if v > *e {
                            *e = v;
                        }
                    }
                    let nontrivial = !rep.nontrivial.is_empty();
                    for k in rep.nontrivial {
                        local.nontrivial.insert(k);
                    }
                    if let Some(s) = rep.sample {
                        // prefer non-trivial cases as samples, keep a few
                        if local.samples.len() < 3 && (nontrivial || local.samples.is_empty()) {
                            local.samples.push(s);
                        }
                    }
                    for v in rep.violations {
                        if local.violations.len() < 200 {
                            local.violations.push((i, cs, v));
                        }
                        // enough witnesses: do not spend minutes collecting thousands more
                        if !known_signatures.contains(&local.violations.last().map(|x| x.2.signature.clone()).unwrap_or_default())
                            && violation_count.fetch_add(1, Ordering::Relaxed) >= 400
                        {
                            stop.store(true, Ordering::Relaxed);
                        }
                    }
                    if let Some(r) = rep.inconclusive {
                        if local.inconclusive.len() < 20 {
                            local.inconclusive.push(format!("case {} (case_seed {}): {}", i, cs, r));
                        }
                    }
                }
                let mut m = merged.lock().unwrap();
                m.evaluations += local.evaluations;
                for (k, v) in local.counters {
                    *m.counters.entry(k).or_insert(0) += v;
                }
                for (k, v) in local.maxima {
                    let e = m.maxima.entry(k).or_insert(0);
                    if v > *e {
                        *e = v;
                    }
                }
                m.nontrivial.extend(local.nontrivial);
                m.samples.extend(local.samples);
                m.violations.extend(local.violations);
                m.inconclusive.extend(local.inconclusive);
                drop(m);
                in_flight[my_slot].store(u64::MAX, Ordering::Relaxed);
            }));
        }
        for w in workers {
            let _ = w.join();
        }
        all_done.store(true, Ordering::Relaxed);
    });

    let mut m = merged.into_inner().unwrap();
    m.violations.sort_by_key(|(i, _, _)| *i);
    m.samples.truncate(6);
    let wall = started.elapsed().as_secs_f64();

    // ---- verdict
    let known = match load_known_findings(&format!("{}/known_findings.json", cfg.verif_dir)) {
        Ok(k) => k,
        Err(e) => {
            println!("INCONCLUSIVE property={} reason=cannot read known_findings.json: {}", mon.id(), e);
            return RunSummary { exit_code: 2 };
        }
    };
    let mut known_hit: BTreeMap<String, (String, u64)> = BTreeMap::new();
    let mut new_sigs: BTreeMap<String, (u64, u64, Violation, u64)> = BTreeMap::new();
    for (i, cs, v) in &m.violations {
        let k = known
            .iter()
            .find(|k| k.property == mon.id() && k.status == "known" && k.signature == v.signature);
        if let Some(k) = k {
            let e = known_hit.entry(k.signature.clone()).or_insert((k.what.clone(), 0));
            e.1 += 1;
        } else {
            let e = new_sigs
                .entry(v.signature.clone())
                .or_insert((*i, *cs, v.clone(), 0));
            e.3 += 1;
        }
    }

    let mut inconclusive = m.inconclusive.clone();
    for c in mon.required_counters() {
        if m.counters.get(c).copied().unwrap_or(0) == 0 {
            inconclusive.push(format!("required observation '{}' never happened", c));
        }
    }
    if m.nontrivial.len() < 2 {
        inconclusive.push("fewer than 2 distinct non-trivial cases observed".to_string());
    }
    if m.evaluations < total {
        // the time cap fired: coverage is what was measured, but say so
        println!(
            "NOTE property={} stopped early (time cap {}s, or more than 400 violations collected) after {} of {} cases",
            mon.id(),
            cfg.max_seconds,
            m.evaluations,
            total
        );
    }

    let mut exit_code = 0;
    for (sig, (what, n)) in &known_hit {
        println!(
            "KNOWN-FINDING: property={} {} [signature: {}; observed {} times in this run]",
            mon.id(),
            what,
            sig,
            n
        );
    }
    let replay_dir = format!("{}/replays/{}", cfg.verif_dir, mon.id());
    for (sig, (i, cs, v, n)) in &new_sigs {
        let _ = std::fs::create_dir_all(&replay_dir);
        let path = format!("{}/{:016x}.json", replay_dir, rng::hash_str(sig) ^ *cs);
        let doc = crate::jobj! {
            "property" => mon.id(),
            "signature" => sig,
            "seed" => cfg.seed,
            "tier" => cfg.tier.name(),
            "profile" => profile(),
            "case_index" => *i,
            "case_seed" => *cs,
            "occurrences_in_run" => *n,
            "detail" => v.detail.clone(),
            "replay" => format!("/verif/check.sh {} --replay {}", mon.id(), path),
        };
        let _ = std::fs::write(&path, doc.pretty());
        println!("VIOLATION property={} replay={}", mon.id(), path);
        println!("  signature: {}", sig);
        let d = v.detail.to_string();
        println!("  detail: {}", if d.len() > 1500 { &d[..1500] } else { &d });
        exit_code = 1;
    }
    if exit_code == 0 && !inconclusive.is_empty() {
        for r in &inconclusive {
            println!("INCONCLUSIVE property={} reason={}", mon.id(), r);
        }
        exit_code = 2;
    }

    // ---- evidence
    if cfg.write_evidence {
        let mut observed: Vec<(String, Json)> = m
            .counters
            .iter()
            .map(|(k, v)| (k.clone(), Json::from(*v)))
            .collect();
        for (k, v) in &m.maxima {
            observed.push((format!("max_{}", k), Json::from(*v)));
        }
        let mut coverage = vec![
            ("evaluations".to_string(), Json::from(m.evaluations)),
            ("distinct_nontrivial".to_string(), Json::from(m.nontrivial.len())),
            ("rule".to_string(), Json::from(mon.rule())),
            ("samples".to_string(), Json::Arr(m.samples.clone())),
            ("exhaustive".to_string(), Json::from(mon.exhaustive(cfg.tier))),
            ("profile".to_string(), Json::from(profile())),
            ("planned_cases".to_string(), Json::from(total)),
            ("max_instrumented_loop_iterations_in_one_guarded_library_call".to_string(), Json::from(MAX_TICKS_PER_CALL.load(Ordering::Relaxed))),
            ("observed".to_string(), Json::Obj(observed)),
            (
                "known_findings_observed".to_string(),
                Json::Arr(
                    known_hit
                        .iter()
                        .map(|(s, (_, n))| crate::jobj! {"signature" => s, "occurrences" => *n})
                        .collect(),
                ),
            ),
            (
                "verdict".to_string(),
                Json::from(match exit_code {
                    0 => "held on everything observed",
                    1 => "violated",
                    _ => "inconclusive",
                }),
            ),
        ];
        if !inconclusive.is_empty() {
            coverage.push((
                "inconclusive_reasons".to_string(),
                Json::Arr(inconclusive.iter().map(Json::from).collect()),
            ));
        }
        let ev = Json::Obj(vec![
            ("property_id".to_string(), Json::from(mon.id())),
            ("tier".to_string(), Json::from(cfg.tier.name())),
            ("seed".to_string(), Json::from(cfg.seed)),
            ("level".to_string(), Json::from("exploration")),
            ("coverage".to_string(), Json::Obj(coverage)),
            (
                "assumptions".to_string(),
                Json::Arr(mon.assumptions().iter().map(Json::from).collect()),
            ),
            ("wall_s".to_string(), Json::Float((wall * 1000.0).round() / 1000.0)),
            ("violations".to_string(), Json::from(new_sigs.len())),
        ]);
        let dir = format!("{}/evidence", cfg.verif_dir);
        let _ = std::fs::create_dir_all(&dir);
        let suffix = if profile() == "checked" { "" } else { ".release" };
        let path = format!("{}/{}{}.json", dir, mon.id(), suffix);
        if let Err(e) = std::fs::write(&path, ev.pretty()) {
            println!("INCONCLUSIVE property={} reason=cannot write evidence: {}", mon.id(), e);
            exit_code = exit_code.max(2);
        }
    }

    println!("NOTE property={} max loop iterations in one guarded library call: {}", mon.id(), MAX_TICKS_PER_CALL.load(Ordering::Relaxed));
    println!(
        "SUMMARY property={} tier={} profile={} seed={} cases={} distinct_nontrivial={} new_violations={} known_findings={} wall_s={:.1} verdict={}",
        mon.id(),
        cfg.tier.name(),
        profile(),
        cfg.seed,
        m.evaluations,
        m.nontrivial.len(),
        new_sigs.len(),
        known_hit.len(),
        wall,
        match exit_code {
            0 => "held",
            1 => "VIOLATED",
            _ => "INCONCLUSIVE",
        }
    );
    RunSummary { exit_code }
}

/// Replay a single case from a replay file written by `run`.
pub fn replay(mon: &dyn Monitor, path: &str) -> i32 {
    let text = match std::fs::read_to_string(path) {
        Ok(t) => t,
        Err(e) => {
            println!("INCONCLUSIVE property={} reason=cannot read replay file: {}", mon.id(), e);
            return 2;
        }
    };
    let j = match json::parse(&text) {
        Ok(j) => j,
        Err(e) => {
            println!("INCONCLUSIVE property={} reason=bad replay file: {}", mon.id(), e);
            return 2;
        }
    };
    let cs = j.get("case_seed").and_then(|v| v.as_u64());
    let tier = match j.get("tier").and_then(|v| v.as_str()) {
        Some("thorough") => Tier::Thorough,
        _ => Tier::Quick,
    };
    let ci = j.get("case_index").and_then(|v| v.as_u64()).unwrap_or(0);
    mon.prepare(j.get("seed").and_then(|v| v.as_u64()).unwrap_or(1));
    let cs = match cs {
        Some(c) => c,
        None => {
            println!("INCONCLUSIVE property={} reason=replay file has no case_seed", mon.id());
            return 2;
        }
    };
    let rep = run_one_case(mon, ci, cs, tier);
    if let Some(s) = &rep.sample {
        println!("case: {}", s.to_string());
    }
    if let Some(r) = &rep.inconclusive {
        println!("INCONCLUSIVE property={} reason={}", mon.id(), r);
        return 2;
    }
    if rep.violations.is_empty() {
        println!("replay: property={} case_seed={} held", mon.id(), cs);
        return 0;
    }
    for v in &rep.violations {
        println!("VIOLATION property={} replay={}", mon.id(), path);
        println!("  signature: {}", v.signature);
        println!("  detail: {}", v.detail.to_string());
    }
    1
}
