//! Naive evaluator of the published FP / EDF / FIFO response-time equations
//! ("AF-form", DESIGN §5 C06): no pruning of the search space, no iteration —
//! every offset A in [0, L) is examined and every fixed point is found by a
//! linear scan. Request-bound functions are taken from the library as black
//! boxes (tabulated once); nothing else of the library is used.

use response_time_analysis::time::Duration;

use crate::model::uni::{build_rbf, Outcome, Policy, Preempt, UniProblem};

pub struct Tables {
    /// rbf of the task under analysis, index = interval length
    pub tua: Vec<u64>,
    pub others: Vec<Vec<u64>>,
}

impl Tables {
    pub fn new(p: &UniProblem, upto: u64) -> Tables {
        let tab = |t: &crate::model::uni::TaskP| -> Vec<u64> {
            let r = build_rbf(t);
            (0..=upto).map(|x| u64::from(r.service_needed(Duration::from(x)))).collect()
        };
        Tables { tua: tab(&p.tua), others: p.others.iter().map(tab).collect() }
    }
}

#[derive(Debug, Clone)]
pub struct OracleResult {
    pub outcome: Outcome,
    /// busy-window bound (if it exists within the limit)
    pub l: Option<u64>,
    /// the largest least-solution that had to be found (a limit below this value must give Err)
    pub needed_limit: u64,
    /// offset attaining the maximum
    pub argmax: u64,
    /// number of offsets examined (= L)
    pub offsets: u64,
    /// offsets at which the theorem's F-form (least F >= 0 with A+F >= rhs_A(A+F)) differs from the AF-form
    pub f_form_differs: u64,
    /// true if some subtraction the equations rely on would be negative (input outside the analyses' domain)
    pub degenerate: bool,
}

/// Least x in [1, limit] with f(x) <= x; Some(0) if f(1) == 0; None if there is none.
fn least_fixed_point(limit: u64, f: &dyn Fn(u64) -> u64) -> Option<u64> {
    if limit >= 1 && f(1) == 0 {
        return Some(0);
    }
    (1..=limit).find(|x| f(*x) <= *x)
}

/// Evaluate the analysis' defining equations naively.
pub fn evaluate(p: &UniProblem, tb: &Tables, limit: u64) -> OracleResult {
    let err = Outcome::Diverged(0, limit);
    let c = p.tua.scalar();
    let rem_cost: u64 = match (p.policy, p.pre) {
        (Policy::FIFO, _) => 0,
        (_, Preempt::Full) | (_, Preempt::Floating) => 0,
        (_, Preempt::Non) => c - 1,
        (_, Preempt::Limited) => p.tua.last_seg - 1,
    };
    let fp_blocking = if p.policy == Policy::FP && p.pre != Preempt::Full { p.blocking } else { 0 };
    let sum_others = |x: u64| -> u64 { tb.others.iter().map(|t| t[x as usize]).sum() };

    // ---- busy window
    let rhs_bw = |x: u64| -> u64 {
        match p.policy {
            Policy::FIFO => sum_others(x),
            Policy::FP => fp_blocking + sum_others(x) + tb.tua[x as usize],
            Policy::EDF => sum_others(x) + tb.tua[x as usize],
        }
    };
    let l = match least_fixed_point(limit, &rhs_bw) {
        Some(l) => l,
        None => {
            return OracleResult { outcome: err, l: None, needed_limit: u64::MAX, argmax: 0, offsets: 0, f_form_differs: 0, degenerate: false }
        }
    };
    let mut needed = l;
    let mut best = 0u64;
    let mut argmax = 0u64;
    let mut diverged = false;
    let mut f_diff = 0u64;
    let mut degenerate = false;
    for a in 0..l {
        if p.policy == Policy::FIFO {
            let total = sum_others(a + 1);
            let b = total.saturating_sub(a);
            if b > best {
                best = b;
                argmax = a;
            }
            continue;
        }
        let own = tb.tua[(a + 1) as usize];
        if own < rem_cost {
            degenerate = true;
            continue;
        }
        let own = own - rem_cost;
        let blocking = match p.policy {
            Policy::FP => fp_blocking,
            Policy::EDF => {
                if p.pre == Preempt::Full {
                    0
                } else {
                    p.others
                        .iter()
                        .zip(tb.others.iter())
                        .filter(|(o, t)| o.deadline > p.tua.deadline + a && t[1] > 0)
                        .map(|(o, _)| match p.pre {
                            Preempt::Non => o.scalar().saturating_sub(1),
                            _ => o.max_np.saturating_sub(1),
                        })
                        .max()
                        .unwrap_or(0)
                }
            }
            Policy::FIFO => 0,
        };
        let rhs = |x: u64| -> u64 {
            let interference: u64 = match p.policy {
                Policy::FP => sum_others(x),
                Policy::EDF => p
                    .others
                    .iter()
                    .zip(tb.others.iter())
                    .map(|(o, t)| {
                        let cap = (a + 1 + p.tua.deadline).saturating_sub(o.deadline);
                        t[x.min(cap) as usize]
                    })
                    .sum(),
                Policy::FIFO => 0,
            };
            blocking + own + interference
        };
        match least_fixed_point(limit, &rhs) {
            None => {
                diverged = true;
                needed = u64::MAX;
            }
            Some(af) => {
                if needed != u64::MAX {
                    needed = needed.max(af);
                }
                let f = af.saturating_sub(a);
                let b = f + rem_cost;
                if b > best {
                    best = b;
                    argmax = a;
                }
                // theorem form: least F >= 0 with A + F >= rhs(A + F)
                let f2 = (0..=af).find(|f| {
                    let x = a + *f;
                    x >= rhs(x)
                });
                if f2 != Some(f) {
                    f_diff += 1;
                }
            }
        }
    }
    OracleResult {
        outcome: if diverged { err } else { Outcome::Ok(best) },
        l: Some(l),
        needed_limit: needed,
        argmax,
        offsets: l,
        f_form_differs: f_diff,
        degenerate,
    }
}

/// Table size needed for `evaluate` with the given limit.
pub fn table_size(p: &UniProblem, limit: u64) -> u64 {
    2 * limit + p.tua.deadline + 2
}
