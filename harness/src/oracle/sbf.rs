//! Supply-bound function computed from the reservation parameters alone by
//! looking at actual budget placements — no closed form of the crate is used.
//!
//! Reservation semantics (DESIGN §2): in every period [kP,(k+1)P) exactly Q
//! slots carry supply, all of them inside [kP, kP+D); positions are arbitrary
//! and chosen independently per period.

use response_time_analysis::supply::{self, SupplyBound};
use response_time_analysis::time::{Duration, Service};

#[derive(Clone, Copy, Debug, PartialEq, Eq, Hash)]
pub enum Sup {
    Dedicated,
    Periodic { q: u64, p: u64 },
    Constrained { q: u64, d: u64, p: u64 },
}

/// User-defined supply: forwards `provided_service` only, so the trait's
/// default `service_time` is exercised.
pub struct DefaultInverse(pub Box<dyn SupplyBound>);

impl SupplyBound for DefaultInverse {
    fn provided_service(&self, delta: Duration) -> Service {
        self.0.provided_service(delta)
    }
}

impl Sup {
    pub fn build(&self) -> Box<dyn SupplyBound> {
        match *self {
            Sup::Dedicated => Box::new(supply::Dedicated::new()),
            // (both public ways of making a reservation: the constructor and the struct literal)
            Sup::Periodic { q, p } if (q + p) % 2 == 1 => Box::new(supply::Periodic { period: Duration::from(p), budget: Service::from(q) }),
            Sup::Periodic { q, p } => Box::new(supply::Periodic::new(Service::from(q), Duration::from(p))),
            Sup::Constrained { q, d, p } if (q + d + p) % 2 == 1 => {
                Box::new(supply::Constrained { period: Duration::from(p), budget: Service::from(q), deadline: Duration::from(d) })
            }
            Sup::Constrained { q, d, p } => {
                Box::new(supply::Constrained::new(Service::from(q), Duration::from(d), Duration::from(p)))
            }
        }
    }
    /// (Q, D, P) with Dedicated represented as (1,1,1).
    pub fn qdp(&self) -> (u64, u64, u64) {
        match *self {
            Sup::Dedicated => (1, 1, 1),
            Sup::Periodic { q, p } => (q, p, p),
            Sup::Constrained { q, d, p } => (q, d, p),
        }
    }
    pub fn to_json(&self) -> crate::json::Json {
        match *self {
            Sup::Dedicated => crate::json::Json::from("Dedicated"),
            Sup::Periodic { q, p } => crate::jobj! {"Periodic" => vec![q, p]},
            Sup::Constrained { q, d, p } => crate::jobj! {"Constrained" => vec![q, d, p]},
        }
    }
    pub fn words(&self) -> [u64; 4] {
        match *self {
            Sup::Dedicated => [0, 0, 0, 0],
            Sup::Periodic { q, p } => [1, q, p, p],
            Sup::Constrained { q, d, p } => [2, q, d, p],
        }
    }
}

/// Least service a single period can deliver inside the window part
/// [lo, hi) (period-relative slots, 0 <= lo <= hi <= P): the adversary puts as
/// much budget as possible into allowed slots outside the window.
fn min_overlap_counting(q: u64, d: u64, lo: u64, hi: u64) -> u64 {
    // allowed slots are [0, d); those inside the window: [lo, hi) ∩ [0, d)
    let inside = hi.min(d).saturating_sub(lo.min(d));
    let outside = d - inside;
    q.saturating_sub(outside)
}

/// Same quantity by explicit enumeration of all size-Q subsets of the first D
/// slots (bitmask enumeration; for D <= 20).
fn min_overlap_enumerated(q: u64, d: u64, lo: u64, hi: u64, placements_seen: &mut u64) -> u64 {
    let mut best = u64::MAX;
    let dd = d as u32;
    for mask in 0u32..(1u32 << dd) {
        if mask.count_ones() as u64 != q {
            continue;
        }
        *placements_seen += 1;
        let mut c = 0;
        for s in lo..hi.min(d) {
            if mask & (1 << s) != 0 {
                c += 1;
            }
        }
        best = best.min(c);
    }
    best
}

/// Minimum service in any window of length `delta`, all placements, all
/// window starts in the first period. `enumerate` selects explicit subset
/// enumeration (small D) instead of counting.
pub fn brute_sbf(q: u64, d: u64, p: u64, delta: u64, enumerate: bool, placements_seen: &mut u64) -> u64 {
    if delta == 0 {
        return 0;
    }
    let mut best = u64::MAX;
    for s in 0..p {
        let e = s + delta; // window [s, e)
        let mut total = 0u64;
        let mut k = 0u64;
        while k * p < e {
            let ps = k * p;
            let pe = ps + p;
            let lo = s.max(ps);
            let hi = e.min(pe);
            if lo < hi {
                total += if enumerate {
                    min_overlap_enumerated(q, d, lo - ps, hi - ps, placements_seen)
                } else {
                    min_overlap_counting(q, d, lo - ps, hi - ps)
                };
            }
            k += 1;
        }
        best = best.min(total);
    }
    best
}

/// Fully joint enumeration over `periods` consecutive periods (no
/// independence argument): all placement combinations, all window starts in
/// the first period. Only for tiny parameters.
pub fn joint_brute_sbf(q: u64, d: u64, p: u64, delta: u64, placements_seen: &mut u64) -> u64 {
    if delta == 0 {
        return 0;
    }
    let periods = ((p + delta) + p - 1) / p;
    let masks: Vec<u32> = (0u32..(1u32 << d)).filter(|m| m.count_ones() as u64 == q).collect();
    let n = masks.len();
    let mut idx = vec![0usize; periods as usize];
    let mut best = u64::MAX;
    loop {
        *placements_seen += 1;
        // build the timeline
        let total = (periods * p) as usize;
        let mut tl = vec![false; total];
        for (k, i) in idx.iter().enumerate() {
            for s in 0..d {
                if masks[*i] & (1 << s) != 0 {
                    tl[k * p as usize + s as usize] = true;
                }
            }
        }
        for s in 0..p as usize {
            let c = tl[s..s + delta as usize].iter().filter(|b| **b).count() as u64;
            best = best.min(c);
        }
        // next combination
        let mut pos = 0;
        loop {
            if pos == idx.len() {
                return best;
            }
            idx[pos] += 1;
            if idx[pos] < n {
                break;
            }
            idx[pos] = 0;
            pos += 1;
        }
    }
}

/// Table-based brute SBF for use inside other oracles: sbf[t] for t in 0..=horizon,
/// obtained by sliding windows over the worst placements (counting variant).
pub struct SbfTable {
    pub sup: Sup,
    table: Vec<u64>,
}

impl SbfTable {
    pub fn new(sup: Sup, horizon: u64) -> SbfTable {
        let (q, d, p) = sup.qdp();
        let mut seen = 0;
        let table = (0..=horizon).map(|t| brute_sbf(q, d, p, t, false, &mut seen)).collect();
        SbfTable { sup, table }
    }
    pub fn horizon(&self) -> u64 {
        self.table.len() as u64 - 1
    }
    pub fn sbf(&self, t: u64) -> u64 {
        self.table[(t as usize).min(self.table.len() - 1)]
    }
    /// Least t with sbf(t) >= demand by linear scan; None if beyond the table.
    pub fn service_time(&self, demand: u64) -> Option<u64> {
        (0..self.table.len()).find(|t| self.table[*t] >= demand).map(|t| t as u64)
    }
}

impl SbfTable {
    /// Cheaper table for large horizons: slide windows (all starts in the
    /// first period) over ONE concrete placement — budget as early as possible
    /// in period 0 and as late as the deadline allows in all later periods.
    /// C09 checks on every run that this agrees with `brute_sbf`.
    pub fn canonical(sup: Sup, horizon: u64) -> SbfTable {
        let (q, d, p) = sup.qdp();
        let periods = (horizon + p) / p + 2;
        let total = (periods * p) as usize;
        let mut prefix = vec![0u64; total + 1];
        for t in 0..total {
            let k = t as u64 / p;
            let off = t as u64 % p;
            let on = if k == 0 { off < q } else { off >= d - q && off < d };
            prefix[t + 1] = prefix[t] + on as u64;
        }
        let mut table = Vec::with_capacity(horizon as usize + 1);
        for t in 0..=horizon {
            let mut best = u64::MAX;
            for s in 0..p {
                let a = s as usize;
                let b = (s + t) as usize;
                best = best.min(prefix[b] - prefix[a]);
            }
            table.push(best);
        }
        SbfTable { sup, table }
    }
}
