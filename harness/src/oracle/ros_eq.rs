//! Naive evaluator of the ROS 2 analyses' defining inequalities (DESIGN §5
//! C07): every offset up to the busy-window / offset bound, linear-scan fixed
//! points, and a supply-bound function computed from the reservation
//! parameters alone (`SbfTable`). Arrival, cost and demand functions of the
//! individual components are taken from the library as black boxes.

use response_time_analysis::arrival::ArrivalBound;
use response_time_analysis::demand::RequestBound;
use response_time_analysis::time::Duration;
use response_time_analysis::wcet::JobCostModel;

use crate::model::ros::{CbSpec, Kind, RosProblem};
use crate::model::uni::Outcome;
use crate::oracle::sbf::SbfTable;

pub struct Eval {
    /// ECRTS'19 analyses only: the same evaluation restricted to the step offsets of the demand of
    /// the callback under analysis (what the analysis' Lemma 7 prescribes), and where the all-offset
    /// maximum / first divergence is located ("step", "non-step-inside", "non-step-at-busy-window-end")
    pub steps_only: Option<Outcome>,
    pub decisive_offset: Option<(u64, &'static str)>,
    pub outcome: Outcome,
    /// largest least-solution needed (a smaller limit must give Err); u64::MAX if diverged
    pub needed_limit: u64,
    pub offsets_examined: u64,
    pub max_bound: Option<u64>,
}

fn dur(x: u64) -> Duration {
    Duration::from(x)
}

/// least r in [0, limit] with sbf(offset + r) >= w(max(r, 1))
fn least(sbf: &SbfTable, offset: u64, limit: u64, w: &dyn Fn(u64) -> u64) -> Option<u64> {
    (0..=limit).find(|r| sbf.sbf(offset + *r) >= w((*r).max(1)))
}

struct DemTab {
    need: Vec<u64>,
    least: Vec<u64>,
    /// total number of arrivals of all components
    arrivals: Vec<u64>,
}

impl DemTab {
    fn new(d: &crate::model::dem::Dem, upto: u64) -> DemTab {
        let b = d.build();
        let arrs: Vec<Box<dyn ArrivalBound>> = d.arrs().iter().map(|a| a.build()).collect();
        DemTab {
            need: (0..=upto).map(|x| u64::from(b.service_needed(dur(x)))).collect(),
            least: (0..=upto).map(|x| u64::from(b.least_wcet_in_interval(dur(x)))).collect(),
            arrivals: (0..=upto).map(|x| arrs.iter().map(|a| a.number_arrivals(dur(x)) as u64).sum()).collect(),
        }
    }
    fn n(&self, x: u64) -> u64 {
        self.need[x as usize]
    }
    /// Interval lengths at which the NUMBER OF ARRIVALS of some component steps (with zero-cost jobs
    /// this is a superset of the lengths at which the demand steps); taken from number_arrivals of the
    /// component arrival models.
    fn steps_upto(&self, h: u64) -> Vec<u64> {
        let h = h.min(self.arrivals.len() as u64 - 1);
        (1..=h).filter(|x| self.arrivals[(*x - 1) as usize] < self.arrivals[*x as usize]).collect()
    }
}

/// Table horizon needed for a problem with this limit.
pub fn horizon(p: &RosProblem, limit: u64) -> u64 {
    let maxr = match p {
        RosProblem::RR { workload, .. } | RosProblem::BW { workload, .. } => workload.iter().map(|c| c.rt_bound).max().unwrap_or(0),
        _ => 0,
    };
    3 * limit + maxr + 8
}

pub fn evaluate(p: &RosProblem, sbf: &SbfTable, limit: u64) -> Eval {
    match p {
        RosProblem::EventSource { demand, .. } => {
            let t = DemTab::new(demand, 3 * limit + 4);
            ecrts(sbf, limit, &|x| t.n(x), &|a, _r| t.n(a + 1), &t.steps_upto(2 * limit + 2))
        }
        RosProblem::Timer { own, interf, blocking, .. } => {
            let o = DemTab::new(own, 3 * limit + 4);
            let i = DemTab::new(interf, 3 * limit + 4);
            let b = *blocking;
            ecrts(sbf, limit, &|x| o.n(x) + b + i.n(x), &|a, r| {
                let w = o.least[(a + r) as usize];
                let interval = if r > w { a + r - w + 1 } else { a + 1 };
                o.n(a + 1) + i.n(interval) + b
            }, &o.steps_upto(2 * limit + 2))
        }
        RosProblem::PollingPoint { own, interf, .. } => {
            let o = DemTab::new(own, 3 * limit + 4);
            let i = DemTab::new(interf, 3 * limit + 4);
            ecrts(sbf, limit, &|x| o.n(x) + i.n(x), &|a, r| {
                let w = o.least[(a + r) as usize];
                let interval = if r > w { a + r - w + 1 } else { a + 1 };
                o.n(a + 1) + i.n(interval)
            }, &o.steps_upto(2 * limit + 2))
        }
        RosProblem::Chain { last, prefix, full, others, .. } => {
            let l = DemTab::new(last, 3 * limit + 4);
            let pr = DemTab::new(prefix, 3 * limit + 4);
            let f = DemTab::new(full, 3 * limit + 4);
            let ot = DemTab::new(others, 3 * limit + 4);
            ecrts(sbf, limit, &|x| f.n(x) + ot.n(x), &|a, r| {
                let w = l.least[(a + r) as usize];
                let interval = if r > w { a + r - w + 1 } else { a + 1 };
                l.n(a + 1) + pr.n(interval) + ot.n(interval)
            }, &f.steps_upto(2 * limit + 2))
        }
        RosProblem::RR { workload, subchain, .. } => rr(sbf, limit, workload, subchain),
        RosProblem::BW { workload, subchain, .. } => bw(sbf, limit, workload, subchain),
    }
}

/// Generic driver of the ECRTS'19 analyses: busy-window bound, then EVERY
/// offset 0..=max_bw (not only demand steps). `step_lengths` = interval lengths at
/// which the demand of the callback under analysis steps (for classification only).
fn ecrts(sbf: &SbfTable, limit: u64, bw_rhs: &dyn Fn(u64) -> u64, rhs: &dyn Fn(u64, u64) -> u64, step_lengths: &[u64]) -> Eval {
    let max_bw = match least(sbf, 0, limit, bw_rhs) {
        Some(x) => x,
        None => return Eval { steps_only: Some(Outcome::Diverged(0, limit)), decisive_offset: None, outcome: Outcome::Diverged(0, limit), needed_limit: u64::MAX, offsets_examined: 0, max_bound: None },
    };
    let is_step = |a: u64| step_lengths.binary_search(&(a + 1)).is_ok();
    let mut needed = max_bw;
    let mut best: Option<(u64, u64)> = None; // (value, offset)
    let mut first_err: Option<u64> = None;
    let mut best_steps: Option<u64> = None;
    let mut first_err_steps: Option<u64> = None;
    for a in 0..=max_bw {
        let r = least(sbf, a, limit, &|r| rhs(a, r));
        if std::env::var("RTA_DEBUG").is_ok() {
            eprintln!("offset {} (step: {}) -> {:?}", a, is_step(a), r);
        }
        match r {
            Some(r) => {
                needed = needed.max(r);
                if best.map_or(true, |(b, _)| r > b) {
                    best = Some((r, a));
                }
                if is_step(a) {
                    best_steps = Some(best_steps.map_or(r, |b: u64| b.max(r)));
                }
            }
            None => {
                if first_err.is_none() {
                    first_err = Some(a);
                }
                if is_step(a) && first_err_steps.is_none() {
                    first_err_steps = Some(a);
                }
            }
        }
    }
    let class = |a: u64| -> &'static str {
        if is_step(a) {
            "step"
        } else if a == max_bw {
            "non-step-at-busy-window-end"
        } else {
            "non-step-inside"
        }
    };
    let steps_only = Some(match first_err_steps {
        Some(a) => Outcome::Diverged(a, limit),
        None => Outcome::Ok(best_steps.unwrap_or(0)),
    });
    match first_err {
        Some(a) => Eval { steps_only, decisive_offset: Some((a, class(a))), outcome: Outcome::Diverged(a, limit), needed_limit: u64::MAX, offsets_examined: max_bw + 1, max_bound: best.map(|b| b.0) },
        None => Eval {
            steps_only,
            decisive_offset: best.map(|(_, a)| (a, class(a))),
            outcome: Outcome::Ok(best.map_or(0, |b| b.0)),
            needed_limit: needed,
            offsets_examined: max_bw + 1,
            max_bound: best.map(|b| b.0),
        },
    }
}

struct CbTab {
    eta: Vec<u64>,
    cost: Box<dyn JobCostModel>,
    rt: u64,
    kind: Kind,
}

impl CbTab {
    fn new(c: &CbSpec, upto: u64) -> CbTab {
        let a = c.arr.build();
        CbTab { eta: (0..=upto).map(|x| a.number_arrivals(dur(x)) as u64).collect(), cost: c.cost.build(), rt: c.rt_bound, kind: c.kind }
    }
    fn n(&self, x: u64) -> u64 {
        self.eta[x as usize]
    }
    fn cost(&self, n: u64) -> u64 {
        u64::from(self.cost.cost_of_jobs(n as usize))
    }
}

/// number of instances an interfering callback may contribute, given how many arrived and the cap
fn capped(inf: Kind, reference: Kind, arrived: u64, cap_base: u64) -> u64 {
    match inf {
        Kind::Timer | Kind::EventSource => arrived,
        Kind::PolledUnknown => arrived.min(cap_base + 1),
        Kind::Polled(ip) => match reference {
            Kind::Polled(rp) => arrived.min(cap_base + (ip < rp) as u64),
            _ => arrived.min(cap_base + 1),
        },
    }
}

fn rr(sbf: &SbfTable, limit: u64, workload: &[CbSpec], subchain: &[usize]) -> Eval {
    let maxr = workload.iter().map(|c| c.rt_bound).max().unwrap_or(0);
    let tabs: Vec<CbTab> = workload.iter().map(|c| CbTab::new(c, limit + maxr + 4)).collect();
    let eoc = *subchain.last().unwrap();
    let pp: u64 = subchain.iter().map(|i| tabs[*i].n(tabs[*i].rt)).sum();
    let self_inst = |s: u64| tabs[eoc].n((s + tabs[eoc].rt).saturating_sub(1)).saturating_sub(1);
    let rhs = |s: u64| -> u64 {
        let di: u64 = tabs
            .iter()
            .enumerate()
            .filter(|(i, _)| *i != eoc)
            .map(|(_, c)| {
                let arrived = c.n((s + c.rt).saturating_sub(1));
                c.cost(capped(c.kind, tabs[eoc].kind, arrived, pp))
            })
            .sum();
        1 + di + tabs[eoc].cost(self_inst(s))
    };
    let s_star = match least(sbf, 0, limit, &rhs) {
        Some(s) => s,
        None => return Eval { steps_only: None, decisive_offset: None, outcome: Outcome::Diverged(0, limit), needed_limit: u64::MAX, offsets_examined: 0, max_bound: None },
    };
    let supply_star = sbf.sbf(s_star);
    let n = self_inst(s_star);
    let omega = tabs[eoc].cost(n + 1) - tabs[eoc].cost(n);
    let demand = supply_star.saturating_sub(1) + omega;
    match sbf.service_time(demand) {
        Some(r) => Eval { steps_only: None, decisive_offset: None, outcome: Outcome::Ok(r), needed_limit: s_star, offsets_examined: 1, max_bound: Some(r) },
        None => Eval { steps_only: None, decisive_offset: None, outcome: Outcome::AssumptionViolated, needed_limit: s_star, offsets_examined: 1, max_bound: None },
    }
}

fn bw(sbf: &SbfTable, limit: u64, workload: &[CbSpec], subchain: &[usize]) -> Eval {
    let maxr = workload.iter().map(|c| c.rt_bound).max().unwrap_or(0);
    let tabs: Vec<CbTab> = workload.iter().map(|c| CbTab::new(c, limit + maxr + 4)).collect();
    let eoc = *subchain.last().unwrap();
    let singleton = subchain.len() == 1;
    let pp: u64 = subchain.iter().map(|i| tabs[*i].n(tabs[*i].rt)).sum();
    let interference = |delta: u64, act: u64| -> u64 {
        tabs.iter()
            .enumerate()
            .filter(|(i, _)| *i != eoc)
            .map(|(_, c)| {
                let arrived = c.n(delta);
                let arrived_bw = c.n(act) + pp;
                c.cost(capped(c.kind, tabs[eoc].kind, arrived, arrived_bw))
            })
            .sum()
    };
    let rhs_max = |ta: u64| 1 + interference(ta, ta) + tabs[eoc].cost(tabs[eoc].n(ta));
    let max_offset = match least(sbf, 0, limit, &rhs_max) {
        Some(x) => x,
        None => return Eval { steps_only: None, decisive_offset: None, outcome: Outcome::Diverged(0, limit), needed_limit: u64::MAX, offsets_examined: 0, max_bound: None },
    };
    let mut needed = max_offset;
    let mut best: Option<u64> = None;
    let mut diverged = false;
    for act in 0..max_offset {
        let n_self = tabs[eoc].n(act + 1).saturating_sub(1);
        let si = tabs[eoc].cost(n_self);
        let rhs = |s: u64| 1 + interference(s, act) + si;
        match least(sbf, 0, limit, &rhs) {
            None => diverged = true,
            Some(s_star) => {
                needed = needed.max(s_star);
                let omega = tabs[eoc].cost(n_self + 1) - tabs[eoc].cost(n_self);
                let demand = sbf.sbf(s_star).saturating_sub(1) + omega;
                match sbf.service_time(demand) {
                    None => {
                        return Eval { steps_only: None, decisive_offset: None, outcome: Outcome::AssumptionViolated, needed_limit: needed, offsets_examined: act, max_bound: None }
                    }
                    Some(f) => {
                        let b = if singleton { f.saturating_sub(act) } else { f };
                        best = Some(best.map_or(b, |x: u64| x.max(b)));
                    }
                }
            }
        }
    }
    if diverged {
        Eval { steps_only: None, decisive_offset: None, outcome: Outcome::Diverged(0, limit), needed_limit: u64::MAX, offsets_examined: max_offset, max_bound: best }
    } else {
        Eval { steps_only: None, decisive_offset: None, outcome: Outcome::Ok(best.unwrap_or(0)), needed_limit: needed, offsets_examined: max_offset, max_bound: best }
    }
}

#[allow(dead_code)]
pub fn demand_steps(d: &crate::model::dem::Dem, h: u64) -> Vec<u64> {
    DemTab::new(d, h).steps_upto(h)
}
