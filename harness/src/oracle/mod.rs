pub mod sbf;
pub mod uni_eq;
