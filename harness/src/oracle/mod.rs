pub mod sbf;
