pub mod sbf;
pub mod uni_eq;
pub mod ros_eq;
