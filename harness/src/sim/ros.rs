//! Independent model of the ROS 2 single-threaded executor served by a
//! reservation, and an offline validator for recorded executions.
//!
//! Executor rules (the model named by C04/C05): whenever the thread has supply
//! and no callback in progress it (a) runs the highest-priority timer that has
//! a pending activation; otherwise (b) if its ready set is empty it polls:
//! ready set := all non-timer callbacks with a pending instance at that
//! instant; (c) it removes the highest-priority callback from the ready set
//! and runs ONE (the oldest) pending instance of it. Callbacks are not
//! preempted by each other; the reservation may suspend the thread at any slot
//! boundary. A chain instance activates its successor at the completion
//! instant of the predecessor.

use crate::json::Json;
use crate::model::arr::{Arr, Comp, SeqMode};
use crate::oracle::sbf::Sup;
use crate::rng::Rng;

#[derive(Clone, Debug)]
pub struct Cb {
    pub wcet: u64,
    pub timer: bool,
    /// unique; numerically smaller = higher priority (compared among timers
    /// resp. among polled callbacks)
    pub prio: u32,
    /// optional cost curve (stand-alone callbacks only): any n consecutive
    /// instances execute for at most `curve[n-1]` in total; `curve[0] == wcet`
    pub cost_curve: Option<Vec<u64>>,
}

impl Cb {
    /// The cost model presented to the analyses.
    pub fn cost(&self) -> crate::model::cost::Cost {
        match &self.cost_curve {
            None => crate::model::cost::Cost::Scalar(self.wcet),
            Some(c) if c.len() % 2 == 0 => crate::model::cost::Cost::Curve(c.clone()),
            Some(c) => crate::model::cost::Cost::Extrap(c.clone()),
        }
    }
}

#[derive(Clone, Debug)]
pub struct Chain {
    pub source: Arr,
    /// callback indices; only the first may be a timer
    pub cbs: Vec<usize>,
}

#[derive(Clone, Debug)]
pub struct Executor {
    pub cbs: Vec<Cb>,
    pub chains: Vec<Chain>,
    pub sup: Sup,
}

impl Executor {
    pub fn to_json(&self) -> Json {
        crate::jobj! {
            "supply" => self.sup.to_json(),
            "callbacks_[wcet,timer,prio]" => Json::Arr(self.cbs.iter().map(|c| Json::Arr(vec![Json::from(c.wcet), Json::from(c.timer), Json::from(c.prio)])).collect()),
            "cost_curves" => Json::Arr(self.cbs.iter().map(|c| Json::from(c.cost_curve.clone())).collect()),
            "chains" => Json::Arr(self.chains.iter().map(|c| crate::jobj!{"source" => c.source.to_json(), "callbacks" => c.cbs.iter().map(|x| *x as u64).collect::<Vec<u64>>()}).collect())
        }
    }
    pub fn words(&self) -> Vec<u64> {
        let mut w = self.sup.words().to_vec();
        for c in &self.cbs {
            w.extend([c.wcet, c.timer as u64, c.prio as u64]);
            if let Some(cc) = &c.cost_curve {
                w.push(77);
                w.extend(cc.iter().copied());
            }
        }
        for ch in &self.chains {
            ch.source.words(&mut w);
            w.extend(ch.cbs.iter().map(|x| *x as u64));
        }
        w
    }
    /// (chain, position) of a callback
    pub fn locate(&self, cb: usize) -> (usize, usize) {
        for (ci, ch) in self.chains.iter().enumerate() {
            if let Some(p) = ch.cbs.iter().position(|x| *x == cb) {
                return (ci, p);
            }
        }
        unreachable!()
    }
}

#[derive(Clone, Debug)]
pub struct Plan {
    /// per chain: per arrival component, the source event times
    pub comp_arrivals: Vec<Vec<Vec<u64>>>,
    /// per chain: merged sorted source arrivals
    pub arrivals: Vec<Vec<u64>>,
    /// per callback: execution time of the k-th instance
    pub exec: Vec<Vec<u64>>,
    /// supply per slot
    pub supply: Vec<bool>,
}

#[derive(Clone, Copy, Debug, PartialEq)]
pub enum SupplyPattern {
    /// budget early in the first period, as late as the deadline allows afterwards
    EarlyThenLate,
    AllLate,
    AllEarly,
    Random,
}

pub fn make_supply(sup: Sup, pat: SupplyPattern, len: u64, rng: &mut Rng) -> Vec<bool> {
    let (q, d, p) = sup.qdp();
    let mut v = vec![false; len as usize];
    let periods = (len + p - 1) / p;
    for k in 0..periods {
        let mut slots: Vec<u64> = (0..d).collect();
        match pat {
            SupplyPattern::EarlyThenLate => {
                if k > 0 {
                    slots.reverse()
                }
            }
            SupplyPattern::AllLate => slots.reverse(),
            SupplyPattern::AllEarly => {}
            SupplyPattern::Random => match rng.range(0, 3) {
                0 => {}
                1 => slots.reverse(),
                _ => rng.shuffle(&mut slots),
            },
        }
        for s in slots.iter().take(q as usize) {
            let t = k * p + *s;
            if t < len {
                v[t as usize] = true;
            }
        }
    }
    v
}

#[derive(Clone, Copy, Debug, PartialEq)]
pub enum ArrivalPattern {
    /// every source dense from the common instant `start`
    Synchronous,
    /// like Synchronous, but source `chain` starts `shift` slots later
    /// (e.g. one slot after a polling point)
    Shifted { chain: usize, shift: u64 },
    Random,
}

pub fn make_plan(
    ex: &Executor,
    apat: ArrivalPattern,
    spat: SupplyPattern,
    start: u64,
    horizon: u64,
    full_cost: bool,
    rng: &mut Rng,
) -> Plan {
    let mut comp_arrivals = vec![];
    let mut arrivals = vec![];
    for (ci, ch) in ex.chains.iter().enumerate() {
        let comps: Vec<Comp> = ch.source.components();
        let (mode, st) = match apat {
            ArrivalPattern::Synchronous => (SeqMode::Dense, start),
            ArrivalPattern::Shifted { chain, shift } => (SeqMode::Dense, if chain == ci { start + shift } else { start }),
            ArrivalPattern::Random => (SeqMode::Random, start + rng.range(0, 4)),
        };
        let mut per = vec![];
        let mut all = vec![];
        for c in &comps {
            let s = c.sequence(rng, mode, st, horizon, 300);
            all.extend(s.iter().copied());
            per.push(s);
        }
        all.sort_unstable();
        comp_arrivals.push(per);
        arrivals.push(all);
    }
    let mut exec = vec![vec![]; ex.cbs.len()];
    for ch in ex.chains.iter().enumerate() {
        let n = arrivals[ch.0].len();
        for cb in &ch.1.cbs {
            let mut hist: Vec<u64> = Vec::with_capacity(n);
            for _ in 0..n {
                let cap = match &ex.cbs[*cb].cost_curve {
                    Some(c) => crate::sim::uni::curve_budget(c, &hist).clamp(1, ex.cbs[*cb].wcet),
                    None => ex.cbs[*cb].wcet,
                };
                hist.push(if full_cost || rng.chance(1, 2) { cap } else { rng.range(1, cap) });
            }
            exec[*cb] = hist;
        }
    }
    let total_work: u64 = exec.iter().flatten().sum();
    let (q, _, p) = ex.sup.qdp();
    let len = start + horizon + (total_work + 2) * p / q + 4 * p + 8;
    Plan { comp_arrivals, arrivals, exec, supply: make_supply(ex.sup, spat, len, rng) }
}

#[derive(Clone, Debug, Default)]
pub struct Log {
    /// slot -> (callback, instance) executing in that slot
    pub slots: Vec<Option<(usize, usize)>>,
    /// (time, ready set) for every polling point
    pub polls: Vec<(u64, Vec<usize>)>,
}

pub struct Times {
    /// per callback: (activation, completion) of every finished instance
    pub inst: Vec<Vec<(u64, u64)>>,
}

/// Run the executor model.
pub fn simulate(ex: &Executor, plan: &Plan) -> Log {
    let n = ex.cbs.len();
    // pending activations per callback: queue of activation times; `next[i]` = next instance number
    let mut queue: Vec<std::collections::VecDeque<u64>> = vec![Default::default(); n];
    let mut started: Vec<usize> = vec![0; n];
    let mut src_idx = vec![0usize; ex.chains.len()];
    let succ: Vec<Option<usize>> = (0..n)
        .map(|cb| {
            let (ci, pos) = ex.locate(cb);
            ex.chains[ci].cbs.get(pos + 1).copied()
        })
        .collect();
    let mut ready: Vec<usize> = vec![];
    let mut running: Option<(usize, usize, u64)> = None; // cb, instance, remaining
    let mut log = Log::default();
    let len = plan.supply.len() as u64;
    let total: usize = plan.exec.iter().map(|e| e.len()).sum();
    let mut finished = 0usize;
    let mut t = 0u64;
    while t < len && finished < total {
        // source arrivals at t
        for (ci, ch) in ex.chains.iter().enumerate() {
            while src_idx[ci] < plan.arrivals[ci].len() && plan.arrivals[ci][src_idx[ci]] <= t {
                queue[ch.cbs[0]].push_back(plan.arrivals[ci][src_idx[ci]]);
                src_idx[ci] += 1;
            }
        }
        if !plan.supply[t as usize] {
            log.slots.push(None);
            t += 1;
            continue;
        }
        if running.is_none() {
            // (a) timers
            let timer = (0..n).filter(|i| ex.cbs[*i].timer && !queue[*i].is_empty()).min_by_key(|i| ex.cbs[*i].prio);
            let pick = if let Some(tm) = timer {
                Some(tm)
            } else {
                // (b) poll if the ready set is empty
                if ready.is_empty() {
                    ready = (0..n).filter(|i| !ex.cbs[*i].timer && !queue[*i].is_empty()).collect();
                    if !ready.is_empty() {
                        log.polls.push((t, ready.clone()));
                    }
                }
                // (c) highest-priority ready callback
                if ready.is_empty() {
                    None
                } else {
                    let k = (0..ready.len()).min_by_key(|k| ex.cbs[ready[*k]].prio).unwrap();
                    Some(ready.remove(k))
                }
            };
            if let Some(cb) = pick {
                queue[cb].pop_front();
                let inst = started[cb];
                started[cb] += 1;
                running = Some((cb, inst, plan.exec[cb][inst]));
            }
        }
        match running {
            None => log.slots.push(None),
            Some((cb, inst, rem)) => {
                log.slots.push(Some((cb, inst)));
                if rem == 1 {
                    running = None;
                    finished += 1;
                    if let Some(s) = succ[cb] {
                        queue[s].push_back(t + 1);
                    }
                } else {
                    running = Some((cb, inst, rem - 1));
                }
            }
        }
        t += 1;
    }
    log
}

/// Offline validator. Checks the supply timeline against the reservation,
/// the source arrivals against their models, and every slot of the log
/// against the executor rules; returns activation/completion times and
/// whether every chained callback's activation sequence also respects the
/// chain's source curve (`compliant`).
pub fn validate(ex: &Executor, plan: &Plan, log: &Log) -> Result<(Times, bool), String> {
    let n = ex.cbs.len();
    let (q, d, p) = ex.sup.qdp();
    // 1. reservation
    let len = plan.supply.len() as u64;
    let full_periods = len / p;
    for k in 0..full_periods {
        let inside = (0..p).filter(|s| plan.supply[(k * p + s) as usize]).count() as u64;
        let late = (d..p).filter(|s| plan.supply[(k * p + s) as usize]).count();
        if inside != q || late != 0 {
            return Err(format!("period {}: {} supply slots ({} after the deadline), reservation is (Q={},D={},P={})", k, inside, late, q, d, p));
        }
    }
    // 2. arrivals
    for (ci, ch) in ex.chains.iter().enumerate() {
        let comps = ch.source.components();
        if comps.len() != plan.comp_arrivals[ci].len() {
            return Err(format!("chain {}: component mismatch", ci));
        }
        let mut merged = vec![];
        for (c, s) in comps.iter().zip(plan.comp_arrivals[ci].iter()) {
            if !c.admissible(s) {
                return Err(format!("chain {}: source sequence {:?} not admissible for {:?}", ci, s, c));
            }
            merged.extend(s.iter().copied());
        }
        merged.sort_unstable();
        if merged != plan.arrivals[ci] {
            return Err(format!("chain {}: merged arrivals differ", ci));
        }
        for cb in &ch.cbs {
            if plan.exec[*cb].len() != merged.len() || plan.exec[*cb].iter().any(|e| *e < 1 || *e > ex.cbs[*cb].wcet) {
                return Err(format!("callback {}: illegal execution times", cb));
            }
            if let Some(c) = &ex.cbs[*cb].cost_curve {
                for len in 1..=c.len() {
                    for w in plan.exec[*cb].windows(len) {
                        if w.iter().sum::<u64>() > c[len - 1] {
                            return Err(format!("callback {}: {} consecutive instances execute for {:?}, more than the cost curve allows ({})", cb, len, w, c[len - 1]));
                        }
                    }
                }
            }
        }
    }
    // 3. executor rules, slot by slot
    let mut activations: Vec<Vec<u64>> = vec![vec![]; n]; // activation time of every instance so far
    let mut done: Vec<Vec<(u64, u64)>> = vec![vec![]; n];
    let mut begun: Vec<usize> = vec![0; n];
    let mut progress: Option<(usize, usize, u64)> = None; // cb, instance, executed
    let mut ready: Vec<usize> = vec![];
    let mut poll_iter = log.polls.iter().peekable();
    let mut src_idx = vec![0usize; ex.chains.len()];
    for (t, slot) in log.slots.iter().enumerate() {
        let t = t as u64;
        for (ci, ch) in ex.chains.iter().enumerate() {
            while src_idx[ci] < plan.arrivals[ci].len() && plan.arrivals[ci][src_idx[ci]] <= t {
                activations[ch.cbs[0]].push(plan.arrivals[ci][src_idx[ci]]);
                src_idx[ci] += 1;
            }
        }
        let has_pending = |cb: usize, activations: &Vec<Vec<u64>>, begun: &Vec<usize>| activations[cb].len() > begun[cb];
        if !plan.supply[t as usize] {
            if slot.is_some() {
                return Err(format!("slot {}: execution without supply", t));
            }
            continue;
        }
        match (progress, slot) {
            (Some((cb, inst, _)), Some((rcb, rinst))) => {
                if (cb, inst) != (*rcb, *rinst) {
                    return Err(format!("slot {}: callback {} instance {} was preempted by callback {}", t, cb, inst, rcb));
                }
            }
            (Some((cb, _, _)), None) => return Err(format!("slot {}: thread idles with supply while callback {} is in progress", t, cb)),
            (None, chosen) => {
                // a selection takes place at this instant
                let best_timer = (0..n).filter(|i| ex.cbs[*i].timer && has_pending(*i, &activations, &begun)).min_by_key(|i| ex.cbs[*i].prio);
                let expect: Option<usize> = if let Some(tm) = best_timer {
                    Some(tm)
                } else {
                    if ready.is_empty() {
                        let now: Vec<usize> = (0..n).filter(|i| !ex.cbs[*i].timer && has_pending(*i, &activations, &begun)).collect();
                        if !now.is_empty() {
                            match poll_iter.next() {
                                Some((pt, set)) if *pt == t && *set == now => {}
                                other => return Err(format!("slot {}: polling point expected with ready set {:?}, log has {:?}", t, now, other)),
                            }
                        }
                        ready = now;
                    }
                    if ready.is_empty() {
                        None
                    } else {
                        let k = (0..ready.len()).min_by_key(|k| ex.cbs[ready[*k]].prio).unwrap();
                        Some(ready.remove(k))
                    }
                };
                match (expect, chosen) {
                    (None, None) => {}
                    (Some(e), Some((rcb, rinst))) => {
                        if e != *rcb {
                            return Err(format!("slot {}: executor must pick callback {} but {} runs", t, e, rcb));
                        }
                        if *rinst != begun[e] {
                            return Err(format!("slot {}: callback {} must run its oldest pending instance {}", t, e, begun[e]));
                        }
                        begun[e] += 1;
                        progress = Some((e, *rinst, 0));
                    }
                    (e, c) => return Err(format!("slot {}: executor rule expects {:?}, log has {:?}", t, e, c)),
                }
            }
        }
        if let Some((cb, inst, ex_units)) = progress {
            let units = ex_units + 1;
            if units == plan.exec[cb][inst] {
                done[cb].push((activations[cb][inst], t + 1));
                progress = None;
                let (ci, pos) = ex.locate(cb);
                if let Some(s) = ex.chains[ci].cbs.get(pos + 1) {
                    activations[*s].push(t + 1);
                }
            } else {
                progress = Some((cb, inst, units));
            }
        }
    }
    if poll_iter.next().is_some() {
        return Err("log contains polling points that the executor rules do not produce".to_string());
    }
    // compliance of chained callbacks' activations with the chain's source curve
    let mut compliant = true;
    for ch in &ex.chains {
        let comps = ch.source.components();
        for cb in ch.cbs.iter().skip(1) {
            // a superposition is compliant if ... we only decide single-component sources exactly;
            // for multi-component sources use the necessary condition via pairwise windows of the merged model
            if comps.len() == 1 {
                if !comps[0].admissible(&activations[*cb]) {
                    compliant = false;
                }
            } else {
                compliant &= superposition_plausible(&comps, &activations[*cb]);
            }
        }
    }
    Ok((Times { inst: done }, compliant))
}

/// Conservative compliance test for a superposition of components: reject as
/// soon as some window holds more events than the components' dense
/// sequences can jointly produce in a window of that length.
fn superposition_plausible(comps: &[Comp], seq: &[u64]) -> bool {
    if seq.is_empty() {
        return true;
    }
    let span = seq[seq.len() - 1] - seq[0] + 2;
    let mut rng = Rng::new(1);
    // per component: max events in windows of each length, from its dense sequence
    let dense: Vec<Vec<u64>> = comps.iter().map(|c| c.sequence(&mut rng, SeqMode::Dense, c.jitter + 2, span + 2, 2000)).collect();
    for i in 0..seq.len() {
        for j in i..seq.len() {
            let w = seq[j] - seq[i] + 1;
            let cap: usize = dense.iter().map(|d| crate::model::arr::max_in_window(d, w)).sum();
            if j - i + 1 > cap {
                return false;
            }
        }
    }
    true
}

pub fn log_to_json(log: &Log, plan: &Plan) -> Json {
    let mut runs = vec![];
    let mut i = 0;
    while i < log.slots.len() {
        let cur = log.slots[i];
        let mut k = i;
        while k < log.slots.len() && log.slots[k] == cur {
            k += 1;
        }
        if let Some((cb, inst)) = cur {
            runs.push(Json::from(vec![i as u64, cb as u64, inst as u64, (k - i) as u64]));
        }
        i = k;
    }
    let supply_slots: Vec<u64> = (0..log.slots.len() as u64).filter(|t| plan.supply[*t as usize]).collect();
    crate::jobj! {
        "source_arrivals_per_chain" => Json::Arr(plan.arrivals.iter().map(Json::from).collect()),
        "exec_times_per_callback" => Json::Arr(plan.exec.iter().map(Json::from).collect()),
        "supply_slots" => supply_slots,
        "execution_rle_[start,callback,instance,len]" => Json::Arr(runs),
        "polling_points_[t,ready_set]" => Json::Arr(log.polls.iter().map(|(t, s)| Json::Arr(vec![Json::from(*t), Json::from(s.iter().map(|x| *x as u64).collect::<Vec<u64>>())])).collect())
    }
}
