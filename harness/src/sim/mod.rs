pub mod uni;
pub mod ros;
