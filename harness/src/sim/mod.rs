pub mod uni;
