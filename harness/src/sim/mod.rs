pub mod uni;
pub mod ros;
pub mod exhaustive;
