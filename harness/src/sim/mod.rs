pub mod uni;
pub mod ros;
pub mod exhaustive;
pub mod exhaustive_ros;
