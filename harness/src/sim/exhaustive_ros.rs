//! Small-scope exhaustive exploration of the ROS 2 executor + reservation
//! model: ALL arrival patterns of independent sporadic callbacks, ALL
//! execution times in [1, C], ALL legal budget placements, for tiny
//! workloads. The reachable state graph is explored completely (or up to a
//! state cap); the worst response time of every callback over all
//! executions is returned.
//!
//! Written separately from `sim::ros` (state machine instead of timeline
//! simulation), so the two models cross-check each other.

use std::collections::HashSet;

use crate::oracle::sbf::Sup;

#[derive(Clone, Debug)]
pub struct TinyCb {
    /// minimum inter-arrival time (no jitter)
    pub t: u64,
    pub wcet: u64,
    pub timer: bool,
    /// unique, smaller = higher priority
    pub prio: u32,
}

#[derive(Clone, PartialEq, Eq, Hash, Debug)]
struct State {
    /// per callback: slots since the last arrival (capped at t)
    since: Vec<u8>,
    /// per callback: ages of pending (not yet started) instances, oldest first
    pending: Vec<Vec<u8>>,
    /// polled callbacks still in the ready set (bit mask)
    ready: u8,
    /// running instance: (callback, remaining execution, age)
    running: Option<(u8, u8, u8)>,
    /// position inside the reservation period and budget delivered in it
    pos: u8,
    given: u8,
}

pub struct Explored {
    pub worst: Vec<u64>,
    pub states: u64,
    pub transitions: u64,
    pub complete: bool,
    pub exceeded_cap: bool,
}

pub fn explore(cbs: &[TinyCb], sup: Sup, age_cap: u64, state_cap: usize) -> Explored {
    let n = cbs.len();
    let (q, d, p) = sup.qdp();
    let init = State {
        since: cbs.iter().map(|c| c.t.min(250) as u8).collect(),
        pending: vec![vec![]; n],
        ready: 0,
        running: None,
        pos: 0,
        given: 0,
    };
    let mut seen: HashSet<State> = HashSet::new();
    seen.insert(init.clone());
    let mut stack = vec![init];
    let mut worst = vec![0u64; n];
    let mut transitions = 0u64;
    let mut exceeded = false;
    let mut complete = true;
    while let Some(st) = stack.pop() {
        // ---- arrival choices: subset of the callbacks allowed to arrive now
        let allowed: Vec<usize> = (0..n).filter(|i| st.since[*i] as u64 >= cbs[*i].t).collect();
        for mask in 0u32..(1u32 << allowed.len()) {
            let mut s = st.clone();
            for (k, i) in allowed.iter().enumerate() {
                if mask & (1 << k) != 0 {
                    s.pending[*i].push(0);
                    s.since[*i] = 0;
                }
            }
            // ---- supply choices for this slot
            let remaining_budget = q as u8 - s.given;
            let slots_left_before_deadline = (d as u8).saturating_sub(s.pos); // including this slot
            let mut supply_opts: Vec<bool> = vec![];
            if remaining_budget > 0 && s.pos < d as u8 {
                supply_opts.push(true);
                if slots_left_before_deadline > remaining_budget {
                    supply_opts.push(false);
                }
            } else {
                supply_opts.push(false);
            }
            for supplied in supply_opts {
                // ---- executor step (execution-time choice when an instance starts)
                let mut starts: Vec<State> = vec![];
                let mut base = s.clone();
                if supplied {
                    base.given += 1;
                    if base.running.is_none() {
                        // (a) timers
                        let timer = (0..n).filter(|i| cbs[*i].timer && !base.pending[*i].is_empty()).min_by_key(|i| cbs[*i].prio);
                        let pick = if let Some(t) = timer {
                            Some(t)
                        } else {
                            if base.ready == 0 {
                                for i in 0..n {
                                    if !cbs[i].timer && !base.pending[i].is_empty() {
                                        base.ready |= 1 << i;
                                    }
                                }
                            }
                            let best = (0..n).filter(|i| base.ready & (1 << i) != 0).min_by_key(|i| cbs[*i].prio);
                            if let Some(b) = best {
                                base.ready &= !(1 << b);
                            }
                            best
                        };
                        if let Some(cb) = pick {
                            let age = base.pending[cb].remove(0);
                            for e in 1..=cbs[cb].wcet as u8 {
                                let mut x = base.clone();
                                x.running = Some((cb as u8, e, age));
                                starts.push(x);
                            }
                        } else {
                            starts.push(base.clone());
                        }
                    } else {
                        starts.push(base.clone());
                    }
                } else {
                    starts.push(base.clone());
                }
                for mut nx in starts {
                    let mut ok = true;
                    if supplied {
                        if let Some((cb, rem, age)) = nx.running {
                            if rem == 1 {
                                worst[cb as usize] = worst[cb as usize].max(age as u64 + 1);
                                nx.running = None;
                            } else {
                                nx.running = Some((cb, rem - 1, age));
                            }
                        }
                    }
                    // ---- time advances
                    for i in 0..n {
                        if (nx.since[i] as u64) < cbs[i].t {
                            nx.since[i] += 1;
                        }
                        for a in nx.pending[i].iter_mut() {
                            *a += 1;
                            if *a as u64 >= age_cap {
                                ok = false;
                                exceeded = true;
                                worst[i] = worst[i].max(age_cap);
                            }
                        }
                    }
                    if let Some((cb, rem, age)) = nx.running {
                        if age as u64 + 1 >= age_cap {
                            ok = false;
                            exceeded = true;
                            worst[cb as usize] = worst[cb as usize].max(age_cap);
                        }
                        nx.running = Some((cb, rem, age + 1));
                    }
                    nx.pos += 1;
                    if nx.pos as u64 == p {
                        nx.pos = 0;
                        nx.given = 0;
                    }
                    transitions += 1;
                    if ok && !seen.contains(&nx) {
                        if seen.len() >= state_cap {
                            complete = false;
                        } else {
                            seen.insert(nx.clone());
                            stack.push(nx);
                        }
                    }
                }
            }
        }
    }
    Explored { worst, states: seen.len() as u64, transitions, complete, exceeded_cap: exceeded }
}
