//! Small-scope exhaustive exploration of the uniprocessor scheduler model:
//! ALL release patterns (sporadic arrivals with per-job release jitter), ALL
//! execution times in [1, C], ALL tie-breaks, for tiny task systems. The
//! reachable state graph of the scheduler is explored completely (or up to a
//! state cap, in which case the result says so); the worst response time of
//! every task over all schedules is returned.
//!
//! Written separately from `sim::uni` (state-machine formulation instead of
//! schedule generation), so the two models also cross-check each other.

use std::collections::HashSet;

use crate::model::uni::{Policy, Preempt};

#[derive(Clone, Debug)]
pub struct TinyTask {
    /// minimum inter-arrival time
    pub t: u64,
    /// release jitter
    pub j: u64,
    pub wcet: u64,
    pub deadline: u64,
    pub prio: u32,
}

#[derive(Clone, PartialEq, Eq, Hash, Debug)]
struct TaskState {
    /// slots since the last release (capped)
    since: u8,
    /// jitter used by the last released job
    jlast: u8,
    /// pending jobs in release order: (remaining execution, age)
    jobs: Vec<(u8, u8)>,
}

#[derive(Clone, PartialEq, Eq, Hash, Debug)]
struct State {
    tasks: Vec<TaskState>,
    /// task whose head job is inside a non-preemptive execution (started, unfinished)
    np_running: Option<u8>,
}

pub struct Explored {
    /// worst response time per task over all explored schedules
    pub worst: Vec<u64>,
    pub states: u64,
    pub transitions: u64,
    /// true if the reachable state space was explored completely
    pub complete: bool,
    /// some job exceeded `age_cap` (its response time is at least that)
    pub exceeded_cap: bool,
}

/// Explore all schedules. `age_cap`: ages are tracked up to this value; a job
/// reaching it is reported via `exceeded_cap` and not tracked further.
pub fn explore(tasks: &[TinyTask], policy: Policy, pre: Preempt, age_cap: u64, state_cap: usize) -> Explored {
    let n = tasks.len();
    let since_cap: Vec<u8> = tasks.iter().map(|t| (t.t + t.j + 1).min(250) as u8).collect();
    let init = State {
        tasks: (0..n).map(|i| TaskState { since: since_cap[i], jlast: tasks[i].j as u8, jobs: vec![] }).collect(),
        np_running: None,
    };
    let mut seen: HashSet<State> = HashSet::new();
    let mut stack = vec![init.clone()];
    seen.insert(init);
    let mut worst = vec![0u64; n];
    let mut transitions = 0u64;
    let mut exceeded = false;
    let mut complete = true;
    while let Some(st) = stack.pop() {
        // 1. release choices for this slot: per task none, or one job with jitter j' and execution time e
        //    legal iff  since >= T + j' - jlast  (and at most one release per task per slot unless T = 0)
        //    several jobs of one task may be released in the same slot if jitter allows it
        let mut options: Vec<Vec<Vec<(u8, u8)>>> = vec![];
        for i in 0..n {
            let ts = &st.tasks[i];
            let since0 = if ts.since >= since_cap[i] { i64::MAX } else { ts.since as i64 };
            let mut o: Vec<Vec<(u8, u8)>> = vec![vec![]];
            // sequences of releases within this slot (at most 3 per task)
            fn rec(task: &TinyTask, since: i64, jlast: i64, cur: &mut Vec<(u8, u8)>, out: &mut Vec<Vec<(u8, u8)>>) {
                if cur.len() >= 3 {
                    return;
                }
                for jn in 0..=task.j as i64 {
                    if since >= task.t as i64 + jn - jlast {
                        for e in 1..=task.wcet as u8 {
                            cur.push((jn as u8, e));
                            out.push(cur.clone());
                            rec(task, 0, jn, cur, out);
                            cur.pop();
                        }
                    }
                }
            }
            rec(&tasks[i], since0, ts.jlast as i64, &mut vec![], &mut o);
            options.push(o);
        }
        // iterate over the product of release options
        let mut idx = vec![0usize; n];
        'product: loop {
            let mut s = st.clone();
            for i in 0..n {
                for (jn, e) in &options[i][idx[i]] {
                    s.tasks[i].jobs.push((*e, 0));
                    s.tasks[i].since = 0;
                    s.tasks[i].jlast = *jn;
                }
            }
            // 2. scheduling decision (with all tie-breaks)
            let pending: Vec<usize> = (0..n).filter(|i| !s.tasks[*i].jobs.is_empty()).collect();
            let candidates: Vec<Option<usize>> = if pending.is_empty() {
                vec![None]
            } else if let Some(r) = s.np_running {
                vec![Some(r as usize)]
            } else {
                let key = |i: usize| -> i64 {
                    let (_, age) = s.tasks[i].jobs[0];
                    match policy {
                        Policy::FP => tasks[i].prio as i64,
                        Policy::EDF => tasks[i].deadline as i64 - age as i64,
                        Policy::FIFO => -(age as i64),
                    }
                };
                let best = pending.iter().map(|i| key(*i)).min().unwrap();
                pending.iter().filter(|i| key(**i) == best).map(|i| Some(*i)).collect()
            };
            for c in candidates {
                let mut nx = s.clone();
                let mut ok = true;
                if let Some(i) = c {
                    let (rem, age) = nx.tasks[i].jobs[0];
                    if rem == 1 {
                        // completes at the end of this slot: response time = age + 1
                        worst[i] = worst[i].max(age as u64 + 1);
                        nx.tasks[i].jobs.remove(0);
                        nx.np_running = None;
                    } else {
                        nx.tasks[i].jobs[0].0 = rem - 1;
                        nx.np_running = if pre == Preempt::Non || policy == Policy::FIFO { Some(i as u8) } else { None };
                    }
                }
                // 3. time advances
                for i in 0..n {
                    if nx.tasks[i].since < since_cap[i] {
                        nx.tasks[i].since += 1;
                    }
                    for job in nx.tasks[i].jobs.iter_mut() {
                        job.1 += 1;
                        if job.1 as u64 >= age_cap {
                            ok = false;
                            exceeded = true;
                            worst[i] = worst[i].max(age_cap);
                        }
                    }
                }
                transitions += 1;
                if ok && !seen.contains(&nx) {
                    if seen.len() >= state_cap {
                        complete = false;
                    } else {
                        seen.insert(nx.clone());
                        stack.push(nx);
                    }
                }
            }
            // next combination
            let mut p = 0;
            loop {
                if p == n {
                    break 'product;
                }
                idx[p] += 1;
                if idx[p] < options[p].len() {
                    break;
                }
                idx[p] = 0;
                p += 1;
            }
        }
    }
    Explored { worst, states: seen.len() as u64, transitions, complete, exceeded_cap: exceeded }
}
