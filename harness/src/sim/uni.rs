//! Independent discrete-time uniprocessor scheduler model (FP / EDF / FIFO ×
//! fully preemptive / non-preemptive / limited-preemptive / floating NP
//! regions) and an offline validator for the schedules it records.
//!
//! Time model: a job released at t can run in slot [t, t+1); it completes at
//! t+1 if its last unit runs in slot t; response time = completion − release.
//!
//! The simulator *chooses*; the validator (`validate`) only *checks* a recorded
//! schedule against the model text and shares no decision code with it.

use crate::json::Json;
use crate::model::arr::{Comp, SeqMode};
use crate::model::uni::{Policy, Preempt, System};
use crate::rng::{mix, Rng};

#[derive(Clone, Debug)]
pub struct JobPlan {
    pub release: u64,
    pub exec: u64,
    /// limited-preemptive: actual segment lengths (sum = exec)
    pub segs: Vec<u64>,
    /// floating: non-preemptive regions as (first unit index, length) in
    /// units of executed progress, disjoint and sorted
    pub regions: Vec<(u64, u64)>,
}

#[derive(Clone, Debug)]
pub struct Plan {
    /// per task: release sequences per arrival component (for the
    /// admissibility check), and the merged job list sorted by release
    pub comp_releases: Vec<Vec<Vec<u64>>>,
    pub jobs: Vec<Vec<JobPlan>>,
    /// task whose jobs lose every tie (None: ties by `tie_seed`)
    pub tie_against: Option<usize>,
    pub tie_seed: u64,
}

#[derive(Clone, Debug)]
pub struct Schedule {
    /// slot -> (task, job) or idle
    pub slots: Vec<Option<(usize, usize)>>,
}

#[derive(Clone, Copy, Debug, PartialEq)]
pub enum Pattern {
    /// every task dense from a common start; all jobs at WCET; ties against the TUA
    Synchronous,
    /// like Synchronous, but task `blocker` starts one slot earlier
    Blocked { blocker: usize },
    /// random releases, execution times, NP placements, ties
    Random,
    /// dense releases but random execution times / NP placements
    DenseRandomExec,
    /// all tasks dense from the common start, except task `task`, whose dense sequence starts
    /// `shift` slots later (EDF: aligns its absolute deadline with a deadline of another task);
    /// `blocker` (if any) starts one slot before the common start
    Shifted { task: usize, shift: u64, blocker: Option<usize> },
}

pub const T0_MARGIN: u64 = 2;

/// Build a plan: release sequences from the generative arrival semantics plus
/// per-job execution parameters.
pub fn make_plan(
    sys: &System,
    pre: Preempt,
    pattern: Pattern,
    tua: usize,
    horizon: u64,
    rng: &mut Rng,
) -> Plan {
    make_plan_c(sys, pre, pattern, tua, horizon, rng, false)
}

/// Largest execution time the next job may have under the task's cost curve, given the execution
/// times of its predecessors: min over n of c(n) - (sum of the last n-1 jobs).
pub fn curve_budget(curve: &[u64], history: &[u64]) -> u64 {
    let mut best = u64::MAX;
    for n in 1..=curve.len() {
        if n - 1 > history.len() {
            break;
        }
        let prev: u64 = history[history.len() - (n - 1)..].iter().sum();
        best = best.min(curve[n - 1].saturating_sub(prev));
    }
    best
}

/// As `make_plan`; with `curves` the jobs of tasks that carry a cost curve respect it.
pub fn make_plan_c(
    sys: &System,
    pre: Preempt,
    pattern: Pattern,
    tua: usize,
    horizon: u64,
    rng: &mut Rng,
    curves: bool,
) -> Plan {
    let jmax = sys.tasks.iter().map(|t| t.arr.max_jitter()).max().unwrap_or(0);
    let t0 = jmax + T0_MARGIN;
    let mut comp_releases = vec![];
    let mut jobs = vec![];
    for (ti, task) in sys.tasks.iter().enumerate() {
        let comps: Vec<Comp> = task.arr.components();
        let (mode, start) = match pattern {
            Pattern::Synchronous | Pattern::DenseRandomExec => (SeqMode::Dense, t0),
            Pattern::Blocked { blocker } => (SeqMode::Dense, if ti == blocker { t0 - 1 } else { t0 }),
            Pattern::Shifted { task, shift, blocker } => (
                SeqMode::Dense,
                if ti == task {
                    t0 + shift
                } else if Some(ti) == blocker {
                    t0 - 1
                } else {
                    t0
                },
            ),
            Pattern::Random => (SeqMode::Random, t0 - rng.range(0, 1) + if rng.chance(1, 2) { rng.range(0, 3) } else { rng.range(0, 40) }),
        };
        let mut per_comp = vec![];
        let mut all: Vec<u64> = vec![];
        for c in &comps {
            let seq = c.sequence(rng, mode, start, horizon, 3000);
            all.extend(seq.iter().copied());
            per_comp.push(seq);
        }
        all.sort_unstable();
        let full_cost = matches!(pattern, Pattern::Synchronous | Pattern::Blocked { .. } | Pattern::Shifted { .. });
        let mut tj = vec![];
        for r in all {
            let (exec, segs) = match pre {
                Preempt::Limited => {
                    let segs: Vec<u64> = if full_cost || rng.chance(1, 2) {
                        task.segs.clone()
                    } else {
                        task.segs.iter().map(|m| rng.range(1, *m)).collect()
                    };
                    (segs.iter().sum(), segs)
                }
                _ => {
                    let cap = match (&task.cost_curve, curves) {
                        (Some(c), true) => {
                            let hist: Vec<u64> = tj.iter().map(|j: &JobPlan| j.exec).collect();
                            curve_budget(c, &hist).clamp(1, task.wcet)
                        }
                        _ => task.wcet,
                    };
                    let e = if full_cost || rng.chance(1, 2) { cap } else { rng.range(1, cap) };
                    (e, vec![])
                }
            };
            let mut regions = vec![];
            if pre == Preempt::Floating {
                if full_cost {
                    // one maximal region right at the start (the blocking pattern)
                    regions.push((0, task.np_max.min(exec)));
                } else {
                    let mut p = 0;
                    while p < exec {
                        if rng.chance(1, 2) {
                            let len = rng.range(1, task.np_max).min(exec - p);
                            regions.push((p, len));
                            p += len;
                        } else {
                            p += rng.range(1, 3);
                        }
                    }
                }
            }
            tj.push(JobPlan { release: r, exec, segs, regions });
        }
        comp_releases.push(per_comp);
        jobs.push(tj);
    }
    let tie_against = match pattern {
        Pattern::Random => {
            if rng.chance(1, 2) {
                Some(tua)
            } else {
                None
            }
        }
        _ => Some(tua),
    };
    Plan { comp_releases, jobs, tie_against, tie_seed: rng.next_u64() }
}

struct JobState {
    progress: u64,
    done_at: Option<u64>,
}

/// Is the job non-preemptable right now, i.e. after having executed
/// `progress` units (0 < progress < exec)?
fn np_now(pre: Preempt, j: &JobPlan, progress: u64) -> bool {
    if progress == 0 || progress >= j.exec {
        return false;
    }
    match pre {
        Preempt::Full => false,
        Preempt::Non => true,
        Preempt::Limited => {
            // preemption points are the segment boundaries
            let mut acc = 0;
            for s in &j.segs {
                acc += *s;
                if acc == progress {
                    return false;
                }
                if acc > progress {
                    return true;
                }
            }
            false
        }
        Preempt::Floating => j.regions.iter().any(|(s, l)| *s <= progress - 1 && progress < *s + *l),
    }
}

fn abs_deadline(sys: &System, task: usize, j: &JobPlan) -> u64 {
    j.release + sys.tasks[task].deadline
}

/// Priority key: smaller = runs first. Second component is the tie key.
fn key(sys: &System, policy: Policy, plan: &Plan, task: usize, job: usize) -> (u64, u64) {
    let j = &plan.jobs[task][job];
    let main = match policy {
        Policy::FP => sys.tasks[task].prio as u64,
        Policy::EDF => abs_deadline(sys, task, j),
        Policy::FIFO => j.release,
    };
    let tie = match plan.tie_against {
        Some(t) if t == task => u64::MAX,
        _ => mix(plan.tie_seed ^ ((task as u64) << 32) ^ job as u64) >> 1,
    };
    (main, tie)
}

pub struct SimResult {
    pub schedule: Schedule,
    /// completion time per (task, job); None if not completed within the cap
    pub completion: Vec<Vec<Option<u64>>>,
}

/// Run the scheduler model on the plan until all jobs completed or `cap` slots.
pub fn simulate(sys: &System, policy: Policy, pre: Preempt, plan: &Plan, cap: u64) -> SimResult {
    let n = sys.tasks.len();
    let mut st: Vec<Vec<JobState>> = plan
        .jobs
        .iter()
        .map(|js| js.iter().map(|_| JobState { progress: 0, done_at: None }).collect())
        .collect();
    let mut head = vec![0usize; n]; // first incomplete job per task
    let total_jobs: usize = plan.jobs.iter().map(|j| j.len()).sum();
    let mut completed = 0usize;
    let mut slots = vec![];
    let mut prev: Option<(usize, usize)> = None;
    let mut t = 0u64;
    while completed < total_jobs && t < cap {
        // fast-forward over idle time
        let mut any_pending = false;
        let mut next_release = u64::MAX;
        for k in 0..n {
            if head[k] < plan.jobs[k].len() {
                let r = plan.jobs[k][head[k]].release;
                if r <= t {
                    any_pending = true;
                } else {
                    next_release = next_release.min(r);
                }
            }
        }
        if !any_pending {
            let to = next_release.min(cap);
            while t < to {
                slots.push(None);
                t += 1;
            }
            prev = None;
            continue;
        }
        let mut choice: Option<(usize, usize)> = None;
        if let Some((pt, pj)) = prev {
            let js = &st[pt][pj];
            if js.done_at.is_none() && np_now(pre, &plan.jobs[pt][pj], js.progress) {
                choice = Some((pt, pj));
            }
        }
        if choice.is_none() {
            let mut best: Option<((u64, u64), (usize, usize))> = None;
            for k in 0..n {
                if head[k] < plan.jobs[k].len() && plan.jobs[k][head[k]].release <= t {
                    let kk = key(sys, policy, plan, k, head[k]);
                    if best.map_or(true, |(b, _)| kk < b) {
                        best = Some((kk, (k, head[k])));
                    }
                }
            }
            choice = best.map(|(_, c)| c);
        }
        let (ct, cj) = choice.unwrap();
        let js = &mut st[ct][cj];
        js.progress += 1;
        slots.push(Some((ct, cj)));
        if js.progress == plan.jobs[ct][cj].exec {
            js.done_at = Some(t + 1);
            completed += 1;
            head[ct] += 1;
        }
        prev = Some((ct, cj));
        t += 1;
    }
    SimResult {
        schedule: Schedule { slots },
        completion: st.iter().map(|v| v.iter().map(|j| j.done_at).collect()).collect(),
    }
}

/// Offline validator: is the recorded schedule a legal execution of the
/// system under (policy, preemption model)? Returns per-job response times
/// (None for jobs unfinished at the end of the log) or the reason for rejection.
pub fn validate(
    sys: &System,
    policy: Policy,
    pre: Preempt,
    plan: &Plan,
    sched: &Schedule,
) -> Result<Vec<Vec<Option<u64>>>, String> {
    validate_c(sys, policy, pre, plan, sched, false)
}

/// As `validate`; with `curves` every run of n consecutive jobs of a task with a cost curve
/// c(1..m) must execute for at most c(n) in total.
pub fn validate_c(
    sys: &System,
    policy: Policy,
    pre: Preempt,
    plan: &Plan,
    sched: &Schedule,
    curves: bool,
) -> Result<Vec<Vec<Option<u64>>>, String> {
    let n = sys.tasks.len();
    if curves {
        for (ti, task) in sys.tasks.iter().enumerate() {
            if let Some(c) = &task.cost_curve {
                let e: Vec<u64> = plan.jobs[ti].iter().map(|j| j.exec).collect();
                for len in 1..=c.len() {
                    for w in e.windows(len) {
                        if w.iter().sum::<u64>() > c[len - 1] {
                            return Err(format!("task {}: {} consecutive jobs execute for {:?}, more than the cost curve allows ({})", ti, len, w, c[len - 1]));
                        }
                    }
                }
            }
        }
    }
    // 1. releases are admissible for the arrival models, job parameters are within bounds
    for (ti, task) in sys.tasks.iter().enumerate() {
        let comps = task.arr.components();
        if comps.len() != plan.comp_releases[ti].len() {
            return Err(format!("task {}: component count mismatch", ti));
        }
        let mut merged: Vec<u64> = vec![];
        for (c, seq) in comps.iter().zip(plan.comp_releases[ti].iter()) {
            if !c.admissible(seq) {
                return Err(format!("task {}: release sequence {:?} not admissible for {:?}", ti, seq, c));
            }
            merged.extend(seq.iter().copied());
        }
        merged.sort_unstable();
        let rel: Vec<u64> = plan.jobs[ti].iter().map(|j| j.release).collect();
        if merged != rel {
            return Err(format!("task {}: job releases differ from component sequences", ti));
        }
        for (ji, j) in plan.jobs[ti].iter().enumerate() {
            if j.exec < 1 || j.exec > task.wcet {
                return Err(format!("task {} job {}: execution time {} outside [1,{}]", ti, ji, j.exec, task.wcet));
            }
            match pre {
                Preempt::Limited => {
                    if j.segs.len() != task.segs.len()
                        || j.segs.iter().zip(task.segs.iter()).any(|(a, m)| *a < 1 || a > m)
                        || j.segs.iter().sum::<u64>() != j.exec
                    {
                        return Err(format!("task {} job {}: illegal segments {:?} (max {:?})", ti, ji, j.segs, task.segs));
                    }
                }
                Preempt::Floating => {
                    let mut end = 0;
                    for (s, l) in &j.regions {
                        if *l < 1 || *l > task.np_max || *s < end || *s + *l > j.exec {
                            return Err(format!("task {} job {}: illegal NP regions {:?}", ti, ji, j.regions));
                        }
                        end = *s + *l;
                    }
                }
                _ => {}
            }
        }
    }
    // 2. slot-by-slot legality
    let mut progress: Vec<Vec<u64>> = plan.jobs.iter().map(|js| vec![0; js.len()]).collect();
    let mut done: Vec<Vec<Option<u64>>> = plan.jobs.iter().map(|js| vec![None; js.len()]).collect();
    // jobs of one task must execute in release order, so the pending jobs of a
    // task are a contiguous range starting at its oldest unfinished job
    let mut oldest = vec![0usize; n];
    let mut prev: Option<(usize, usize)> = None;
    for (t, slot) in sched.slots.iter().enumerate() {
        let t = t as u64;
        let is_pending = |k: usize, oldest: &Vec<usize>| oldest[k] < plan.jobs[k].len() && plan.jobs[k][oldest[k]].release <= t;
        match slot {
            None => {
                for k in 0..n {
                    if is_pending(k, &oldest) {
                        return Err(format!("slot {}: processor idles although job ({},{}) is pending", t, k, oldest[k]));
                    }
                }
                prev = None;
            }
            Some((rt, rj)) => {
                let (rt, rj) = (*rt, *rj);
                if rt >= n || rj >= plan.jobs[rt].len() {
                    return Err(format!("slot {}: unknown job ({},{})", t, rt, rj));
                }
                if plan.jobs[rt][rj].release > t || done[rt][rj].is_some() {
                    return Err(format!("slot {}: job ({},{}) runs but is not pending", t, rt, rj));
                }
                if rj != oldest[rt] {
                    return Err(format!("slot {}: job ({},{}) overtakes an earlier job of its task", t, rt, rj));
                }
                // a job inside a non-preemptive section must continue
                let mut forced = None;
                if let Some((pt, pj)) = prev {
                    if done[pt][pj].is_none() && np_section_open(pre, &plan.jobs[pt][pj], progress[pt][pj]) {
                        forced = Some((pt, pj));
                    }
                }
                if let Some(f) = forced {
                    if f != (rt, rj) {
                        return Err(format!("slot {}: job {:?} is inside a non-preemptive section but {:?} runs", t, f, (rt, rj)));
                    }
                } else {
                    // policy: no pending job may have strictly higher priority
                    let r = &plan.jobs[rt][rj];
                    for k in 0..n {
                        if k == rt || !is_pending(k, &oldest) {
                            continue;
                        }
                        let o = &plan.jobs[k][oldest[k]];
                        let strictly_higher = match policy {
                            Policy::FP => sys.tasks[k].prio < sys.tasks[rt].prio,
                            Policy::EDF => o.release + sys.tasks[k].deadline < r.release + sys.tasks[rt].deadline,
                            Policy::FIFO => o.release < r.release,
                        };
                        if strictly_higher {
                            return Err(format!("slot {}: {:?} runs although {:?} has higher priority", t, (rt, rj), (k, oldest[k])));
                        }
                    }
                }
                progress[rt][rj] += 1;
                if progress[rt][rj] == plan.jobs[rt][rj].exec {
                    done[rt][rj] = Some(t + 1);
                    oldest[rt] += 1;
                }
                prev = Some((rt, rj));
            }
        }
    }
    let mut rts = vec![];
    for k in 0..n {
        rts.push(
            plan.jobs[k]
                .iter()
                .zip(done[k].iter())
                .map(|(j, d)| d.map(|c| c - j.release))
                .collect(),
        );
    }
    Ok(rts)
}

/// Validator's own reading of "inside a non-preemptive section" (written
/// separately from `np_now`).
fn np_section_open(pre: Preempt, j: &JobPlan, progress: u64) -> bool {
    if progress == 0 || progress >= j.exec {
        return false;
    }
    match pre {
        Preempt::Full => false,
        Preempt::Non => true,
        Preempt::Limited => {
            let boundaries: Vec<u64> = j
                .segs
                .iter()
                .scan(0u64, |acc, s| {
                    *acc += *s;
                    Some(*acc)
                })
                .collect();
            !boundaries.contains(&progress)
        }
        Preempt::Floating => {
            // the unit just executed (index progress-1) and the next one (index progress)
            // belong to the same region
            j.regions.iter().any(|(s, l)| (*s..*s + *l).contains(&(progress - 1)) && (*s..*s + *l).contains(&progress))
        }
    }
}

pub fn plan_to_json(plan: &Plan) -> Json {
    Json::Arr(
        plan.jobs
            .iter()
            .map(|js| {
                Json::Arr(
                    js.iter()
                        .map(|j| {
                            let mut o = vec![("r", Json::from(j.release)), ("e", Json::from(j.exec))];
                            if !j.segs.is_empty() {
                                o.push(("segs", Json::from(&j.segs)));
                            }
                            if !j.regions.is_empty() {
                                o.push(("np", Json::Arr(j.regions.iter().map(|(a, b)| Json::from(vec![*a, *b])).collect())));
                            }
                            crate::json::obj(o)
                        })
                        .collect(),
                )
            })
            .collect(),
    )
}

pub fn schedule_to_json(s: &Schedule) -> Json {
    // run-length encoded: [start, task, job, length]
    let mut out = vec![];
    let mut i = 0;
    while i < s.slots.len() {
        let cur = s.slots[i];
        let mut k = i;
        while k < s.slots.len() && s.slots[k] == cur {
            k += 1;
        }
        if let Some((t, j)) = cur {
            out.push(Json::from(vec![i as u64, t as u64, j as u64, (k - i) as u64]));
        }
        i = k;
    }
    Json::Arr(out)
}
