//! Arrival-model descriptions, their construction as library objects, and an
//! INDEPENDENT generative semantics: which event sequences each model
//! documents as admissible. Nothing in the semantic part calls the library.

use std::rc::Rc;

use response_time_analysis::arrival::{self, ArrivalBound};
use response_time_analysis::time::Duration;

use crate::json::Json;
use crate::rng::Rng;

#[derive(Clone, Debug, PartialEq)]
pub enum Arr {
    Periodic { t: u64 },
    Sporadic { t: u64, j: u64 },
    /// `arrival::Curve::new(dmin)`; dmin[i] = min distance of i+2 events.
    Curve { dmin: Vec<u64> },
    /// `arrival::ExtrapolatingCurve::new(Curve::new(dmin))`
    Extrap { dmin: Vec<u64> },
    /// `arrival::ArrivalCurvePrefix::new(horizon, steps)`
    Prefix { horizon: u64, steps: Vec<(u64, usize)> },
    /// `ArrivalCurvePrefix::from_arrival_bound_until(inner, horizon)` used as an arrival model for
    /// the process that `inner` describes: either converted to a `Curve` (`as_curve`) or behind
    /// `Propagated::with_jitter(.., 0)`. `inner` is a leaf that can release something.
    Recorded { inner: Box<Arr>, horizon: u64, as_curve: bool },
    Never,
    /// `Propagated::with_jitter(&leaf, j)`; inner must be a leaf model.
    Propagated { inner: Box<Arr>, j: u64 },
    /// `inner.clone_with_jitter(j)` (boxed dyn result)
    Jittered { inner: Box<Arr>, j: u64 },
    /// `Vec<Box<dyn ArrivalBound>>`
    Sum { parts: Vec<Arr> },
    /// `arrival::sum_of(a, b)`
    SumOf { a: Box<Arr>, b: Box<Arr> },
    /// `Rc<[Box<dyn ArrivalBound>]>` (exercises the slice impl and the Rc auto-impl)
    RcSlice { parts: Vec<Arr> },
}

fn d(x: u64) -> Duration {
    Duration::from(x)
}

impl Arr {
    pub fn is_leaf(&self) -> bool {
        matches!(
            self,
            Arr::Periodic { .. }
                | Arr::Sporadic { .. }
                | Arr::Curve { .. }
                | Arr::Extrap { .. }
                | Arr::Prefix { .. }
                | Arr::Never
        )
    }

    pub fn build_curve(dmin: &[u64]) -> arrival::Curve {
        arrival::Curve::new(dmin.iter().map(|x| d(*x)).collect())
    }

    pub fn build_prefix(horizon: u64, steps: &[(u64, usize)]) -> arrival::ArrivalCurvePrefix {
        arrival::ArrivalCurvePrefix::new(d(horizon), steps.iter().map(|(x, n)| (d(*x), *n)).collect())
    }

    /// Construct the library object, wrapped so that every item pulled from its `steps_iter` counts
    /// against the armed loop budget (hook H3): a consumer that never stops pulling — e.g. a filter
    /// that rejects every step — becomes a deterministic fuel event instead of a hang.
    pub fn build(&self) -> Box<dyn ArrivalBound> {
        Box::new(Ticking(self.build_raw()))
    }

    /// Construct the bare library object.
    pub fn build_raw(&self) -> Box<dyn ArrivalBound> {
        match self {
            Arr::Periodic { t } => Box::new(arrival::Periodic::new(d(*t))),
            // (all three public ways of obtaining a jitter-free sporadic model)
            Arr::Sporadic { t, j: 0 } if *t % 3 == 1 => Box::new(arrival::Sporadic::new_zero_jitter(d(*t))),
            Arr::Sporadic { t, j: 0 } if *t % 3 == 2 => Box::new(arrival::Sporadic::from(arrival::Periodic::new(d(*t)))),
            Arr::Sporadic { t, j } => Box::new(arrival::Sporadic::new(d(*t), d(*j))),
            Arr::Curve { dmin } => Box::new(Self::build_curve(dmin)),
            Arr::Extrap { dmin } => Box::new(arrival::ExtrapolatingCurve::new(Self::build_curve(dmin))),
            Arr::Prefix { horizon, steps } => Box::new(Self::build_prefix(*horizon, steps)),
            Arr::Never => Box::new(arrival::Never {}),
            Arr::Recorded { inner, horizon, as_curve } => {
                // (through the loop budget: `from_arrival_bound_until` collects the source's steps up to
                // the horizon, which never ends if the source's steps stop increasing)
                let src = Ticking(inner.build_raw());
                let p = arrival::ArrivalCurvePrefix::from_arrival_bound_until(&src, d(*horizon));
                if *as_curve {
                    Box::new(arrival::Curve::from(p))
                } else {
                    Box::new(arrival::Propagated::with_jitter(&p, d(0)))
                }
            }
            Arr::Propagated { inner, j } => match &**inner {
                Arr::Periodic { t } => {
                    Box::new(arrival::Propagated::with_jitter(&TickingT(arrival::Periodic::new(d(*t))), d(*j)))
                }
                Arr::Sporadic { t, j: j0 } => Box::new(arrival::Propagated::with_jitter(
                    &TickingT(arrival::Sporadic::new(d(*t), d(*j0))),
                    d(*j),
                )),
                Arr::Curve { dmin } => {
                    Box::new(arrival::Propagated::with_jitter(&TickingT(Self::build_curve(dmin)), d(*j)))
                }
                Arr::Extrap { dmin } => Box::new(arrival::Propagated::with_jitter(
                    &TickingT(arrival::ExtrapolatingCurve::new(Self::build_curve(dmin))),
                    d(*j),
                )),
                Arr::Prefix { horizon, steps } => Box::new(arrival::Propagated::with_jitter(
                    &TickingT(Self::build_prefix(*horizon, steps)),
                    d(*j),
                )),
                Arr::Never => Box::new(arrival::Propagated::with_jitter(&arrival::Never {}, d(*j))),
                other => other.build().clone_with_jitter(d(*j)),
            },
            Arr::Jittered { inner, j } => inner.build().clone_with_jitter(d(*j)),
            Arr::Sum { parts } => {
                let v: Vec<Box<dyn ArrivalBound>> = parts.iter().map(|p| p.build()).collect();
                Box::new(v)
            }
            Arr::SumOf { a, b } => Box::new(arrival::sum_of(a.build(), b.build())),
            Arr::RcSlice { parts } => {
                let v: Vec<Box<dyn ArrivalBound>> = parts.iter().map(|p| p.build()).collect();
                let rc: Rc<[Box<dyn ArrivalBound>]> = Rc::from(v);
                Box::new(rc)
            }
        }
    }

    pub fn kind(&self) -> &'static str {
        match self {
            Arr::Periodic { .. } => "Periodic",
            Arr::Sporadic { .. } => "Sporadic",
            Arr::Curve { .. } => "Curve",
            Arr::Extrap { .. } => "ExtrapolatingCurve",
            Arr::Prefix { .. } => "ArrivalCurvePrefix",
            Arr::Never => "Never",
            Arr::Recorded { as_curve: true, .. } => "Curve::from(ArrivalCurvePrefix::from_arrival_bound_until)",
            Arr::Recorded { .. } => "Propagated<ArrivalCurvePrefix::from_arrival_bound_until>",
            Arr::Propagated { .. } => "Propagated",
            Arr::Jittered { .. } => "clone_with_jitter",
            Arr::Sum { .. } => "Vec",
            Arr::SumOf { .. } => "sum_of",
            Arr::RcSlice { .. } => "Rc<[..]>",
        }
    }

    /// Nested kind, e.g. "Propagated<Curve>" — used in violation signatures.
    pub fn shape(&self) -> String {
        match self {
            Arr::Propagated { inner, .. } => format!("Propagated<{}>", inner.shape()),
            Arr::Jittered { inner, .. } => format!("clone_with_jitter({})", inner.shape()),
            Arr::Sum { .. } => "Vec<..>".to_string(),
            Arr::SumOf { .. } => "sum_of(..)".to_string(),
            Arr::RcSlice { .. } => "Rc<[..]>".to_string(),
            other => other.kind().to_string(),
        }
    }

    pub fn to_json(&self) -> Json {
        match self {
            Arr::Periodic { t } => crate::jobj! {"Periodic" => *t},
            Arr::Sporadic { t, j } => crate::jobj! {"Sporadic" => vec![*t, *j]},
            Arr::Curve { dmin } => crate::jobj! {"Curve" => dmin},
            Arr::Extrap { dmin } => crate::jobj! {"ExtrapolatingCurve" => dmin},
            Arr::Prefix { horizon, steps } => crate::jobj! {
                "ArrivalCurvePrefix" => crate::jobj!{"horizon" => *horizon,
                "steps" => Json::Arr(steps.iter().map(|(x, n)| Json::Arr(vec![Json::from(*x), Json::from(*n)])).collect())}
            },
            Arr::Never => Json::from("Never"),
            Arr::Recorded { inner, horizon, as_curve } => crate::jobj! {"from_arrival_bound_until" => inner.to_json(), "horizon" => *horizon,
                "used_as" => if *as_curve { "Curve::from(prefix)" } else { "Propagated::with_jitter(&prefix, 0)" }},
            Arr::Propagated { inner, j } => crate::jobj! {"Propagated" => inner.to_json(), "jitter" => *j},
            Arr::Jittered { inner, j } => crate::jobj! {"clone_with_jitter" => inner.to_json(), "jitter" => *j},
            Arr::Sum { parts } => crate::jobj! {"Vec" => Json::Arr(parts.iter().map(|p| p.to_json()).collect())},
            Arr::SumOf { a, b } => crate::jobj! {"sum_of" => Json::Arr(vec![a.to_json(), b.to_json()])},
            Arr::RcSlice { parts } => crate::jobj! {"RcSlice" => Json::Arr(parts.iter().map(|p| p.to_json()).collect())},
        }
    }

    /// Canonical words for hashing distinct cases.
    pub fn words(&self, out: &mut Vec<u64>) {
        match self {
            Arr::Periodic { t } => out.extend([1, *t]),
            Arr::Sporadic { t, j } => out.extend([2, *t, *j]),
            Arr::Curve { dmin } => {
                out.push(3);
                out.push(dmin.len() as u64);
                out.extend(dmin.iter().copied());
            }
            Arr::Extrap { dmin } => {
                out.push(4);
                out.push(dmin.len() as u64);
                out.extend(dmin.iter().copied());
            }
            Arr::Prefix { horizon, steps } => {
                out.extend([5, *horizon, steps.len() as u64]);
                for (x, n) in steps {
                    out.extend([*x, *n as u64]);
                }
            }
            Arr::Never => out.push(6),
            Arr::Recorded { inner, horizon, as_curve } => {
                out.extend([12, *horizon, *as_curve as u64]);
                inner.words(out);
            }
            Arr::Propagated { inner, j } => {
                out.extend([7, *j]);
                inner.words(out);
            }
            Arr::Jittered { inner, j } => {
                out.extend([8, *j]);
                inner.words(out);
            }
            Arr::Sum { parts } => {
                out.extend([9, parts.len() as u64]);
                parts.iter().for_each(|p| p.words(out));
            }
            Arr::SumOf { a, b } => {
                out.push(10);
                a.words(out);
                b.words(out);
            }
            Arr::RcSlice { parts } => {
                out.extend([11, parts.len() as u64]);
                parts.iter().for_each(|p| p.words(out));
            }
        }
    }

    /// Flatten into independent components (base process + total jitter).
    pub fn components(&self) -> Vec<Comp> {
        let mut out = vec![];
        self.collect(0, &mut out);
        out
    }

    fn collect(&self, jitter: u64, out: &mut Vec<Comp>) {
        match self {
            Arr::Periodic { t } => out.push(Comp { base: Base::Periodic(*t), jitter }),
            Arr::Sporadic { t, j } => out.push(Comp { base: Base::MinSep(*t), jitter: jitter + *j }),
            Arr::Curve { dmin } | Arr::Extrap { dmin } => out.push(Comp { base: Base::Dmin(dmin.clone()), jitter }),
            Arr::Prefix { horizon, steps } => {
                if let Some(v) = prefix_to_dmin(*horizon, steps) {
                    out.push(Comp { base: Base::Dmin(v), jitter })
                }
            }
            Arr::Never => {}
            // the process is the recorded source's; the prefix only bounds it
            Arr::Recorded { inner, .. } => inner.collect(jitter, out),
            Arr::Propagated { inner, j } | Arr::Jittered { inner, j } => inner.collect(jitter + *j, out),
            Arr::Sum { parts } | Arr::RcSlice { parts } => parts.iter().for_each(|p| p.collect(jitter, out)),
            Arr::SumOf { a, b } => {
                a.collect(jitter, out);
                b.collect(jitter, out);
            }
        }
    }

    /// Total jitter along the deepest path (to choose a safe time origin).
    pub fn max_jitter(&self) -> u64 {
        self.components().iter().map(|c| c.jitter).max().unwrap_or(0)
    }

    /// True if the model bounds its process exactly (the bound is attained
    /// by the dense sequence in windows anchored at its start).
    pub fn is_exact(&self) -> bool {
        match self {
            Arr::Periodic { .. } | Arr::Sporadic { .. } | Arr::Never => true,
            Arr::Extrap { dmin } => dmin.len() >= 2 && is_superadditive(dmin),
            Arr::Propagated { inner, .. } | Arr::Jittered { inner, .. } => inner.is_exact(),
            Arr::Sum { parts } | Arr::RcSlice { parts } => parts.iter().all(|p| p.is_exact()),
            Arr::SumOf { a, b } => a.is_exact() && b.is_exact(),
            _ => false,
        }
    }
}

/// Delta-min constraints equivalent to an arrival-curve prefix: n events
/// (n <= N) span at least delta_n - 1 where delta_n is the first recorded
/// interval length at which the curve reaches n; N+1 events span at least
/// the horizon.
pub fn prefix_to_dmin(horizon: u64, steps: &[(u64, usize)]) -> Option<Vec<u64>> {
    let nmax = steps.last().map(|s| s.1).unwrap_or(0);
    if nmax == 0 {
        return None;
    }
    let mut v = vec![];
    for n in 2..=nmax {
        let delta = steps.iter().find(|(_, k)| *k >= n).map(|(x, _)| *x).unwrap();
        v.push(delta.saturating_sub(1));
    }
    v.push(horizon);
    Some(v)
}

#[derive(Clone, Debug, PartialEq)]
pub enum Base {
    /// strictly periodic arrivals
    Periodic(u64),
    /// arrivals separated by at least t
    MinSep(u64),
    /// any n <= len+1 consecutive arrivals span at least dmin[n-2]
    Dmin(Vec<u64>),
}

#[derive(Clone, Debug, PartialEq)]
pub struct Comp {
    pub base: Base,
    pub jitter: u64,
}

#[derive(Clone, Copy, Debug, PartialEq)]
pub enum SeqMode {
    /// Densest legal pattern anchored at `start`: underlying arrivals begin
    /// `jitter` before `start`, the first events are held back to `start`,
    /// everything else is released as early as possible.
    Dense,
    /// Dense plus random extra gaps and random per-event delays.
    Random,
}

impl Comp {
    /// Earliest next arrival given the history (base process only).
    fn earliest_next(&self, hist: &[i64]) -> i64 {
        let k = hist.len();
        if k == 0 {
            return i64::MIN;
        }
        match &self.base {
            Base::Periodic(t) | Base::MinSep(t) => hist[k - 1] + *t as i64,
            Base::Dmin(v) => {
                let mut lo = hist[k - 1];
                for n in 2..=(v.len() + 1).min(k + 1) {
                    // n consecutive events ending with the new one start at index k+1-n
                    let first = hist[k + 1 - n];
                    lo = lo.max(first + v[n - 2] as i64);
                }
                lo
            }
        }
    }

    /// Generate an admissible *release* sequence within [start, start+horizon).
    /// Returned times are >= start >= 0 (requires start >= jitter so the
    /// underlying arrival times stay non-negative — not required for
    /// correctness, only for readability of logs).
    pub fn sequence(&self, rng: &mut Rng, mode: SeqMode, start: u64, horizon: u64, max_events: usize) -> Vec<u64> {
        let start = start as i64;
        let end = start + horizon as i64;
        let j = self.jitter as i64;
        let mut arrivals: Vec<i64> = vec![];
        let mut releases: Vec<u64> = vec![];
        let first = match mode {
            SeqMode::Dense => start - j,
            SeqMode::Random => start - j + rng.range(0, (j as u64) + 3) as i64,
        };
        let slack_den = rng.range(2, 8);
        loop {
            let mut a = if arrivals.is_empty() { first } else { self.earliest_next(&arrivals) };
            if mode == SeqMode::Random && !arrivals.is_empty() && !matches!(self.base, Base::Periodic(_)) {
                if rng.chance(1, slack_den) {
                    a += rng.log_range(1, 40) as i64;
                }
            }
            if a >= end || releases.len() >= max_events {
                break;
            }
            arrivals.push(a);
            let delay = match mode {
                // release as early as possible but not before `start`
                SeqMode::Dense => (start - a).max(0).min(j),
                SeqMode::Random => {
                    let lo = (start - a).max(0).min(j);
                    match rng.range(0, 3) {
                        0 => lo,
                        1 => j,
                        _ => rng.range(lo as u64, j as u64) as i64,
                    }
                }
            };
            let r = a + delay;
            if r >= start && r < end {
                releases.push(r as u64);
            } else if r >= end && delay == 0 {
                break;
            }
        }
        releases.sort_unstable();
        releases
    }

    /// Independent admissibility check of a sorted release sequence: is there
    /// an assignment of underlying arrival times a_k in [r_k - jitter, r_k]
    /// that is legal for the base process? (Greedy-earliest assignment is
    /// optimal because all constraints are lower bounds on later arrivals.)
    pub fn admissible(&self, releases: &[u64]) -> bool {
        if releases.windows(2).any(|w| w[0] > w[1]) {
            return false;
        }
        let j = self.jitter as i64;
        match &self.base {
            Base::Periodic(t) => {
                // a_k = phi + m_k * t with strictly increasing integers m_k and r_k - j <= a_k <= r_k.
                // Try every phase phi in [0, t): assign the smallest feasible slot index greedily.
                if releases.is_empty() {
                    return true;
                }
                let t = *t as i64;
                'phase: for phi in 0..t {
                    let mut last_m: i64 = i64::MIN;
                    for r in releases {
                        let r = *r as i64;
                        // smallest m with phi + m t >= r - j
                        let lo = r - j - phi;
                        let mut m = lo.div_euclid(t);
                        if phi + m * t < r - j {
                            m += 1;
                        }
                        if last_m != i64::MIN && m <= last_m {
                            m = last_m + 1;
                        }
                        if phi + m * t > r {
                            continue 'phase;
                        }
                        last_m = m;
                    }
                    return true;
                }
                false
            }
            _ => {
                let mut hist: Vec<i64> = vec![];
                for r in releases {
                    let r = *r as i64;
                    let a = if hist.is_empty() { r - j } else { self.earliest_next(&hist).max(r - j) };
                    if a > r {
                        return false;
                    }
                    hist.push(a);
                }
                true
            }
        }
    }
}

/// Is dmin (index i = distance of i+2 events) non-decreasing and super-additive,
/// i.e. dmin(a+b-1) >= dmin(a) + dmin(b) for all a,b >= 2 inside the prefix?
pub fn is_superadditive(v: &[u64]) -> bool {
    if v.windows(2).any(|w| w[0] > w[1]) {
        return false;
    }
    let m = v.len() + 1; // largest n covered
    for a in 2..=m {
        for b in a..=m {
            let n = a + b - 1;
            if n <= m && v[n - 2] < v[a - 2] + v[b - 2] {
                return false;
            }
        }
    }
    true
}

/// Independent super-additive closure: extend `v` until it covers at least
/// `n_target` events or its last distance is >= `dist_target`.
/// dmin(n) = max over a+b-1 = n (a,b >= 2) of dmin(a) + dmin(b).
pub fn close_superadditive(v: &[u64], n_target: usize, dist_target: u64, max_len: usize) -> Vec<u64> {
    let mut out = v.to_vec();
    if out.len() < 2 {
        return out;
    }
    while (out.len() + 1 < n_target || *out.last().unwrap() < dist_target) && out.len() < max_len {
        let n = out.len() + 2; // next event count
        let mut best = 0u64;
        for a in 2..n {
            let b = n + 1 - a;
            if b < 2 || b >= n {
                continue;
            }
            best = best.max(out[a - 2] + out[b - 2]);
        }
        out.push(best);
    }
    out
}

/// Window counting: largest number of events of `seq` inside any half-open
/// window of length `delta`.
pub fn max_in_window(seq: &[u64], delta: u64) -> usize {
    if delta == 0 {
        return 0;
    }
    let mut best = 0;
    let mut lo = 0;
    for hi in 0..seq.len() {
        while seq[hi] - seq[lo] >= delta {
            lo += 1;
        }
        best = best.max(hi - lo + 1);
    }
    best
}

// ------------------------------------------------------------ generators

/// A random non-decreasing, super-additive delta-min prefix with last entry > 0.
/// `bursty` allows leading zeros (simultaneous events) and plateaus.
pub fn gen_dmin(rng: &mut Rng, max_len: usize, scale: u64, bursty: bool) -> Vec<u64> {
    let len = rng.usize(1, max_len.max(1));
    gen_dmin_len(rng, len, scale, bursty)
}

/// As `gen_dmin`, with exactly `len` entries.
pub fn gen_dmin_len(rng: &mut Rng, len: usize, scale: u64, bursty: bool) -> Vec<u64> {
    let mut v: Vec<u64> = Vec::with_capacity(len);
    let mut cur = 0u64;
    for i in 0..len {
        let inc = if bursty && rng.chance(1, 3) {
            0
        } else {
            rng.log_range(1, scale.max(1))
        };
        cur += inc;
        // enforce super-additivity against earlier entries
        let n = i + 2;
        let mut need = cur;
        for a in 2..n {
            let b = n + 1 - a;
            if b >= 2 && b < n {
                need = need.max(v[a - 2] + v[b - 2]);
            }
        }
        cur = need;
        v.push(cur);
    }
    if *v.last().unwrap() == 0 {
        let l = v.len();
        v[l - 1] = rng.log_range(1, scale.max(1));
    }
    v
}

/// Delta-min vector of a trace computed by definition (independent of the
/// library's `from_trace`): v[n-2] = min over i of t[i+n-1] - t[i].
pub fn dmin_of_trace(trace: &[u64], max_n: usize) -> Vec<u64> {
    let mut v = vec![];
    for n in 2..=max_n.min(trace.len()) {
        let mut best = u64::MAX;
        for i in 0..=(trace.len() - n) {
            best = best.min(trace[i + n - 1] - trace[i]);
        }
        v.push(best);
    }
    v
}

pub struct ArrGen {
    /// typical period scale
    pub scale: u64,
    pub allow_never: bool,
    pub allow_prefix: bool,
    pub allow_composite: bool,
    pub allow_curve: bool,
    pub max_jitter_factor: u64,
}

impl ArrGen {
    pub fn leaf(&self, rng: &mut Rng) -> Arr {
        let t = rng.log_range(1, self.scale).max(1);
        loop {
            match rng.range(0, 9) {
                0 | 1 => return Arr::Periodic { t },
                2 | 3 | 4 => {
                    let j = match rng.range(0, 3) {
                        0 => 0,
                        1 => rng.range(0, t),
                        _ => rng.range(0, t * self.max_jitter_factor.max(1)),
                    };
                    return Arr::Sporadic { t, j };
                }
                5 | 6 if self.allow_curve => {
                    let bursty = rng.chance(1, 2);
                    return Arr::Curve { dmin: gen_dmin(rng, 6, self.scale, bursty) };
                }
                7 | 8 if self.allow_curve => {
                    let bursty = rng.chance(1, 2);
                    return Arr::Extrap { dmin: gen_dmin(rng, 6, self.scale, bursty) };
                }
                9 if self.allow_never && rng.chance(1, 4) => return Arr::Never,
                9 if self.allow_prefix => {
                    // derive a prefix from a random dmin so that it is realisable
                    let b = rng.chance(1, 2);
                    let v = gen_dmin(rng, 5, self.scale, b);
                    let mut steps: Vec<(u64, usize)> = vec![];
                    // eta(delta) = max n with dmin(n) < delta ; steps at dmin(n)+1
                    let mut n = 1usize;
                    let mut i = 0;
                    steps.push((1, 1));
                    while i < v.len() {
                        n += 1;
                        let delta = v[i] + 1;
                        if steps.last().unwrap().0 == delta {
                            steps.last_mut().unwrap().1 = n;
                        } else {
                            steps.push((delta, n));
                        }
                        i += 1;
                    }
                    let horizon = steps.last().unwrap().0 + rng.range(0, self.scale);
                    return Arr::Prefix { horizon, steps };
                }
                _ => continue,
            }
        }
    }

    pub fn any(&self, rng: &mut Rng, depth: u32) -> Arr {
        if !self.allow_composite || depth == 0 || rng.chance(1, 2) {
            return self.leaf(rng);
        }
        let jmax = self.scale * self.max_jitter_factor.max(1);
        match rng.range(0, if self.allow_curve { 6 } else { 5 }) {
            6 => {
                let inner = loop {
                    let l = self.leaf(rng);
                    if matches!(l, Arr::Periodic { .. } | Arr::Sporadic { .. } | Arr::Curve { .. } | Arr::Extrap { .. }) {
                        break l;
                    }
                };
                // horizons: arbitrary, or exactly at / next to a step of the source
                let horizon = if rng.chance(1, 2) {
                    rng.range(1, 4 * self.scale)
                } else {
                    let steps: Vec<u64> = inner.build_raw().steps_iter().take(10).map(u64::from).collect();
                    let s = *rng.pick(&steps);
                    (s + rng.range(0, 2)).saturating_sub(1).max(1)
                };
                Arr::Recorded { inner: Box::new(inner), horizon, as_curve: rng.chance(1, 2) }
            }
            0 => Arr::Propagated { inner: Box::new(self.leaf(rng)), j: rng.range(0, jmax) },
            1 => Arr::Jittered { inner: Box::new(self.any(rng, depth - 1)), j: rng.range(0, jmax) },
            2 => {
                let n = rng.usize(1, 3);
                Arr::Sum { parts: (0..n).map(|_| self.any(rng, depth - 1)).collect() }
            }
            3 => Arr::SumOf { a: Box::new(self.any(rng, depth - 1)), b: Box::new(self.any(rng, depth - 1)) },
            4 => {
                let n = rng.usize(1, 3);
                Arr::RcSlice { parts: (0..n).map(|_| self.any(rng, depth - 1)).collect() }
            }
            _ => Arr::Jittered {
                inner: Box::new(Arr::Jittered { inner: Box::new(self.leaf(rng)), j: rng.range(0, jmax) }),
                j: rng.range(0, jmax),
            },
        }
    }
}

/// As `Ticking`, for a concrete (cloneable) model that is handed to a generic library type such as
/// `Propagated<T>` or `ArrivalCurvePrefix::from_arrival_bound_until::<T>`: the library's own adaptors
/// (`filter`, `take_while`, `collect`) around the inner `steps_iter` then pull through the loop budget.
#[derive(Clone)]
pub struct TickingT<T: ArrivalBound + Clone>(pub T);

fn ticking_iter<'a>(it: Box<dyn Iterator<Item = Duration> + 'a>) -> Box<dyn Iterator<Item = Duration> + 'a> {
    // the i-th item costs 1 + i/512 budget units: consumers that pull a few thousand steps are
    // unaffected, a consumer that never stops runs out of budget after ~17 000 items — before the
    // per-item work of caching iterators (which grows with i) turns the runaway loop into minutes
    let mut i = 0u64;
    Box::new(it.inspect(move |_| {
        i += 1;
        for _ in 0..(1 + i / 512) {
            response_time_analysis::verif_hooks::tick("harness: item pulled from steps_iter");
        }
    }))
}

impl<T: ArrivalBound + Clone + 'static> ArrivalBound for TickingT<T> {
    fn number_arrivals(&self, delta: Duration) -> usize {
        self.0.number_arrivals(delta)
    }
    fn steps_iter<'a>(&'a self) -> Box<dyn Iterator<Item = Duration> + 'a> {
        ticking_iter(self.0.steps_iter())
    }
    fn clone_with_jitter(&self, jitter: Duration) -> Box<dyn ArrivalBound> {
        self.0.clone_with_jitter(jitter)
    }
}

/// See `Arr::build`.
pub struct Ticking(pub Box<dyn ArrivalBound>);

impl ArrivalBound for Ticking {
    fn number_arrivals(&self, delta: Duration) -> usize {
        self.0.number_arrivals(delta)
    }
    fn steps_iter<'a>(&'a self) -> Box<dyn Iterator<Item = Duration> + 'a> {
        ticking_iter(self.0.steps_iter())
    }
    fn clone_with_jitter(&self, jitter: Duration) -> Box<dyn ArrivalBound> {
        Box::new(Ticking(self.0.clone_with_jitter(jitter)))
    }
}
