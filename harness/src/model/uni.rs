//! Uniprocessor task systems, the nine dedicated-processor analysis problems
//! derived from them, and the adapter that calls the library.

use response_time_analysis::arrival::ArrivalBound;
use response_time_analysis::demand::{self, RequestBound};
use response_time_analysis::fixed_point::{SearchFailure, SearchResult};
use response_time_analysis::time::{Duration, Service};
use response_time_analysis::wcet;
use response_time_analysis::{edf, fifo, fixed_priority};

use crate::framework::{guard, Caught};
use crate::json::Json;
use crate::model::arr::{Arr, ArrGen};
use crate::model::cost::Cost;
use crate::rng::Rng;

#[derive(Clone, Copy, Debug, PartialEq, Eq, Hash)]
pub enum Policy {
    FP,
    EDF,
    FIFO,
}

#[derive(Clone, Copy, Debug, PartialEq, Eq, Hash)]
pub enum Preempt {
    Full,
    Non,
    Limited,
    Floating,
}

impl Policy {
    pub fn name(self) -> &'static str {
        match self {
            Policy::FP => "FP",
            Policy::EDF => "EDF",
            Policy::FIFO => "FIFO",
        }
    }
}
impl Preempt {
    pub fn name(self) -> &'static str {
        match self {
            Preempt::Full => "fully_preemptive",
            Preempt::Non => "fully_nonpreemptive",
            Preempt::Limited => "limited_preemptive",
            Preempt::Floating => "floating_nonpreemptive",
        }
    }
    pub const ALL: [Preempt; 4] = [Preempt::Full, Preempt::Non, Preempt::Limited, Preempt::Floating];
}

pub fn analysis_name(policy: Policy, pre: Preempt) -> String {
    match policy {
        Policy::FIFO => "fifo".to_string(),
        Policy::FP => format!("fixed_priority::{}", pre.name()),
        Policy::EDF => format!("edf::{}", pre.name()),
    }
}

/// A task of a concrete system (scalar WCET; used by the schedule simulators).
#[derive(Clone, Debug)]
pub struct Task {
    pub arr: Arr,
    pub wcet: u64,
    /// relative deadline (EDF)
    pub deadline: u64,
    /// FP priority: numerically smaller = higher priority
    pub prio: u32,
    /// limited-preemptive model: maximum segment lengths, sum = wcet
    pub segs: Vec<u64>,
    /// floating model: maximum length of a non-preemptive region (1..=wcet)
    pub np_max: u64,
    /// optional cumulative cost curve c(1..m) with c(1) = wcet: any n <= m consecutive jobs of the task
    /// execute for at most c(n) in total (analysed as RBF<_, wcet::Curve>); None = plain scalar WCET
    pub cost_curve: Option<Vec<u64>>,
}

impl Task {
    /// Longest non-preemptive stretch of a job of this task under the model.
    pub fn max_np(&self, pre: Preempt) -> u64 {
        match pre {
            Preempt::Full => 1,
            Preempt::Non => self.wcet,
            Preempt::Limited => *self.segs.iter().max().unwrap(),
            Preempt::Floating => self.np_max,
        }
    }
    pub fn last_seg(&self, pre: Preempt) -> u64 {
        match pre {
            Preempt::Full | Preempt::Floating => 1,
            Preempt::Non => self.wcet,
            Preempt::Limited => *self.segs.last().unwrap(),
        }
    }
    pub fn to_json(&self) -> Json {
        crate::jobj! {"arrivals" => self.arr.to_json(), "wcet" => self.wcet, "deadline" => self.deadline,
        "prio" => self.prio, "segments" => &self.segs, "np_max" => self.np_max, "cost_curve" => self.cost_curve.clone()}
    }
}

#[derive(Clone, Debug)]
pub struct System {
    pub tasks: Vec<Task>,
}

impl System {
    pub fn to_json(&self) -> Json {
        Json::Arr(self.tasks.iter().map(|t| t.to_json()).collect())
    }
    pub fn words(&self) -> Vec<u64> {
        let mut w = vec![];
        for t in &self.tasks {
            t.arr.words(&mut w);
            w.extend([t.wcet, t.deadline, t.prio as u64, t.np_max]);
            w.extend(t.segs.iter().copied());
            if let Some(c) = &t.cost_curve {
                w.push(99);
                w.extend(c.iter().copied());
            }
        }
        w
    }
}

/// Cost curves are used for the analyses that take request-bound functions for every task
/// (FIFO, fully preemptive, floating); the others see the coarser scalar WCET c(1), which is
/// a valid model of the same jobs.
pub fn uses_cost_curves(policy: Policy, pre: Preempt) -> bool {
    policy == Policy::FIFO || matches!(pre, Preempt::Full | Preempt::Floating)
}

/// One task as seen by an analysis.
#[derive(Clone, Debug)]
pub struct TaskP {
    pub arr: Arr,
    pub cost: Cost,
    pub deadline: u64,
    pub last_seg: u64,
    pub max_np: u64,
}

impl TaskP {
    pub fn to_json(&self) -> Json {
        crate::jobj! {"arrivals" => self.arr.to_json(), "cost" => self.cost.to_json(), "deadline" => self.deadline,
        "last_np_segment" => self.last_seg, "max_np_segment" => self.max_np}
    }
    pub fn words(&self, w: &mut Vec<u64>) {
        self.arr.words(w);
        self.cost.words(w);
        w.extend([self.deadline, self.last_seg, self.max_np]);
    }
    pub fn scalar(&self) -> u64 {
        match &self.cost {
            Cost::Scalar(c) => *c,
            other => other.max_job_cost(),
        }
    }
}

/// An input to one of the nine `dedicated_uniproc_rta` functions.
#[derive(Clone, Debug)]
pub struct UniProblem {
    pub policy: Policy,
    pub pre: Preempt,
    /// FIFO: ignored (all tasks are in `others`).
    pub tua: TaskP,
    /// FP: the higher-or-equal-priority tasks; EDF: all other tasks; FIFO: all tasks.
    pub others: Vec<TaskP>,
    /// FP only.
    pub blocking: u64,
    pub limit: u64,
}

impl UniProblem {
    pub fn name(&self) -> String {
        analysis_name(self.policy, self.pre)
    }
    pub fn to_json(&self) -> Json {
        crate::jobj! {"analysis" => self.name(), "tua" => self.tua.to_json(),
        "others" => Json::Arr(self.others.iter().map(|t| t.to_json()).collect()),
        "blocking_bound" => self.blocking, "limit" => self.limit}
    }
    pub fn words(&self) -> Vec<u64> {
        let mut w = vec![self.policy as u64, self.pre as u64, self.blocking, self.limit];
        self.tua.words(&mut w);
        for o in &self.others {
            o.words(&mut w);
        }
        w
    }

    /// Build the problem for task `i` of a concrete system.
    pub fn from_system(sys: &System, policy: Policy, pre: Preempt, i: usize, limit: u64) -> UniProblem {
        let curves = uses_cost_curves(policy, pre);
        let tp = |t: &Task| TaskP {
            arr: t.arr.clone(),
            cost: match &t.cost_curve {
                None => Cost::Scalar(t.wcet),
                Some(_) if !curves => Cost::Scalar(t.wcet),
                // alternate between the two curve types of the library
                Some(c) if c.len() % 2 == 0 => Cost::Curve(c.clone()),
                Some(c) => Cost::Extrap(c.clone()),
            },
            deadline: t.deadline,
            last_seg: t.last_seg(pre),
            max_np: t.max_np(pre),
        };
        let me = &sys.tasks[i];
        match policy {
            Policy::FP => {
                let others = sys
                    .tasks
                    .iter()
                    .enumerate()
                    .filter(|(k, t)| *k != i && t.prio <= me.prio)
                    .map(|(_, t)| tp(t))
                    .collect();
                let blocking = sys
                    .tasks
                    .iter()
                    .filter(|t| t.prio > me.prio)
                    .map(|t| t.max_np(pre) - 1)
                    .max()
                    .unwrap_or(0);
                UniProblem { policy, pre, tua: tp(me), others, blocking, limit }
            }
            Policy::EDF => {
                let others = sys.tasks.iter().enumerate().filter(|(k, _)| *k != i).map(|(_, t)| tp(t)).collect();
                UniProblem { policy, pre, tua: tp(me), others, blocking: 0, limit }
            }
            Policy::FIFO => UniProblem {
                policy,
                pre: Preempt::Non,
                tua: tp(me),
                others: sys.tasks.iter().map(tp).collect(),
                blocking: 0,
                limit,
            },
        }
    }
}

fn d(x: u64) -> Duration {
    Duration::from(x)
}
fn s(x: u64) -> Service {
    Service::from(x)
}

pub type BoxRbf = Box<dyn RequestBound>;

pub fn build_rbf(t: &TaskP) -> BoxRbf {
    Box::new(demand::RBF::new(t.arr.build(), t.cost.build()))
}

/// Outcome of a guarded library call.
#[derive(Clone, Debug, PartialEq)]
pub enum Outcome {
    Ok(u64),
    /// DivergenceLimitExceeded { offset, limit }
    Diverged(u64, u64),
    AssumptionViolated,
}

impl Outcome {
    pub fn from(r: SearchResult) -> Outcome {
        match r {
            Ok(v) => Outcome::Ok(u64::from(v)),
            Err(SearchFailure::DivergenceLimitExceeded { offset, limit }) => {
                Outcome::Diverged(u64::from(offset), u64::from(limit))
            }
            Err(SearchFailure::AssumptionViolated) => Outcome::AssumptionViolated,
        }
    }
    pub fn ok(&self) -> Option<u64> {
        match self {
            Outcome::Ok(v) => Some(*v),
            _ => None,
        }
    }
    pub fn is_err(&self) -> bool {
        !matches!(self, Outcome::Ok(_))
    }
    pub fn to_json(&self) -> Json {
        match self {
            Outcome::Ok(v) => crate::jobj! {"Ok" => *v},
            Outcome::Diverged(o, l) => crate::jobj! {"Err" => "DivergenceLimitExceeded", "offset" => *o, "limit" => *l},
            Outcome::AssumptionViolated => crate::jobj! {"Err" => "AssumptionViolated"},
        }
    }
}

/// Call the library analysis for the problem (unguarded).
/// The RBF object to hand to the library for interfering task `i`: the task under analysis' object or an
/// earlier interfering task's object if the models are identical, else its own.
fn shared_rbf<'a>(p: &UniProblem, i: usize, tua_rbf: &'a BoxRbf, rbfs: &'a [BoxRbf]) -> &'a BoxRbf {
    let same = |a: &TaskP, b: &TaskP| a.arr == b.arr && a.cost == b.cost;
    if same(&p.others[i], &p.tua) {
        return tua_rbf;
    }
    let k = (0..=i).find(|k| same(&p.others[*k], &p.others[i])).unwrap();
    &rbfs[k]
}

pub fn call_lib(p: &UniProblem) -> SearchResult {
    let limit = d(p.limit);
    match (p.policy, p.pre) {
        (Policy::FIFO, _) => {
            // alternate between the aggregate flavours to exercise both
            let rbfs: Vec<BoxRbf> = p.others.iter().map(build_rbf).collect();
            if p.limit % 2 == 0 {
                fifo::dedicated_uniproc_rta(&demand::Aggregate::new(rbfs), limit)
            } else {
                fifo::dedicated_uniproc_rta(&demand::Slice::of(&rbfs[..]), limit)
            }
        }
        (Policy::FP, pre) => {
            let interfering: Vec<BoxRbf> = p.others.iter().map(build_rbf).collect();
            match pre {
                Preempt::Full => {
                    let tua = build_rbf(&p.tua);
                    fixed_priority::fully_preemptive::dedicated_uniproc_rta(&tua, &interfering, limit)
                }
                Preempt::Floating => {
                    let tua = build_rbf(&p.tua);
                    let t = fixed_priority::floating_nonpreemptive::TaskUnderAnalysis {
                        rbf: &tua,
                        blocking_bound: s(p.blocking),
                    };
                    fixed_priority::floating_nonpreemptive::dedicated_uniproc_rta(&t, &interfering, limit)
                }
                Preempt::Non => {
                    let arr = p.tua.arr.build();
                    let t = fixed_priority::fully_nonpreemptive::TaskUnderAnalysis {
                        wcet: wcet::Scalar::new(s(p.tua.scalar())),
                        arrivals: &*arr,
                        blocking_bound: s(p.blocking),
                    };
                    fixed_priority::fully_nonpreemptive::dedicated_uniproc_rta(&t, &interfering, limit)
                }
                Preempt::Limited => {
                    let arr = p.tua.arr.build();
                    let t = fixed_priority::limited_preemptive::TaskUnderAnalysis {
                        wcet: wcet::Scalar::new(s(p.tua.scalar())),
                        arrivals: &*arr,
                        last_np_segment: s(p.tua.last_seg),
                        blocking_bound: s(p.blocking),
                    };
                    fixed_priority::limited_preemptive::dedicated_uniproc_rta(&t, &interfering, limit)
                }
            }
        }
        (Policy::EDF, pre) => match pre {
            Preempt::Full => {
                let tua_rbf = build_rbf(&p.tua);
                let rbfs: Vec<BoxRbf> = p.others.iter().map(build_rbf).collect();
                let tua = edf::fully_preemptive::Task { rbf: &tua_rbf, deadline: d(p.tua.deadline) };
                // tasks with identical models share one RBF OBJECT (also with the task under analysis): a twin
                // task is a task of its own all the same
                let others: Vec<_> = p
                    .others
                    .iter()
                    .enumerate()
                    .map(|(i, t)| edf::fully_preemptive::Task { rbf: shared_rbf(p, i, &tua_rbf, &rbfs), deadline: d(t.deadline) })
                    .collect();
                edf::fully_preemptive::dedicated_uniproc_rta(&tua, &others, limit)
            }
            Preempt::Floating => {
                let tua_rbf = build_rbf(&p.tua);
                let rbfs: Vec<BoxRbf> = p.others.iter().map(build_rbf).collect();
                let tua = edf::floating_nonpreemptive::TaskUnderAnalysis { rbf: &tua_rbf, deadline: d(p.tua.deadline) };
                let others: Vec<_> = p
                    .others
                    .iter()
                    .enumerate()
                    .map(|(i, t)| edf::floating_nonpreemptive::InterferingTask {
                        rbf: shared_rbf(p, i, &tua_rbf, &rbfs),
                        deadline: d(t.deadline),
                        max_np_segment: s(t.max_np),
                    })
                    .collect();
                edf::floating_nonpreemptive::dedicated_uniproc_rta(&tua, &others, limit)
            }
            Preempt::Non => {
                let tua_arr = p.tua.arr.build();
                let arrs: Vec<Box<dyn ArrivalBound>> = p.others.iter().map(|t| t.arr.build()).collect();
                let tua = edf::fully_nonpreemptive::Task {
                    wcet: wcet::Scalar::new(s(p.tua.scalar())),
                    arrivals: &*tua_arr,
                    deadline: d(p.tua.deadline),
                };
                let others: Vec<_> = p
                    .others
                    .iter()
                    .zip(arrs.iter())
                    .map(|(t, a)| edf::fully_nonpreemptive::Task {
                        wcet: wcet::Scalar::new(s(t.scalar())),
                        arrivals: &**a,
                        deadline: d(t.deadline),
                    })
                    .collect();
                edf::fully_nonpreemptive::dedicated_uniproc_rta(&tua, &others, limit)
            }
            Preempt::Limited => {
                let tua_arr = p.tua.arr.build();
                let rbfs: Vec<BoxRbf> = p.others.iter().map(build_rbf).collect();
                let tua = edf::limited_preemptive::TaskUnderAnalysis {
                    wcet: wcet::Scalar::new(s(p.tua.scalar())),
                    arrivals: &*tua_arr,
                    deadline: d(p.tua.deadline),
                    last_np_segment: s(p.tua.last_seg),
                };
                let others: Vec<_> = p
                    .others
                    .iter()
                    .zip(rbfs.iter())
                    .map(|(t, r)| edf::limited_preemptive::InterferingTask {
                        rbf: r,
                        deadline: d(t.deadline),
                        max_np_segment: s(t.max_np),
                    })
                    .collect();
                edf::limited_preemptive::dedicated_uniproc_rta(&tua, &others, limit)
            }
        },
    }
}

/// Guarded library call.
pub fn run_lib(p: &UniProblem) -> Result<Outcome, Caught> {
    guard(|| Outcome::from(call_lib(p)))
}

// ------------------------------------------------------------ generators

pub struct SysGen {
    pub max_tasks: usize,
    pub scale: u64,
    pub allow_curves: bool,
    pub allow_composite: bool,
    pub exact_only: bool,
    pub equal_deadlines: bool,
    /// allow tasks whose cost is a cumulative cost curve
    pub cost_curves: bool,
}

impl SysGen {
    pub fn gen(&self, rng: &mut Rng) -> System {
        // (one system in 40 is a large one)
        let n = if self.max_tasks >= 5 && rng.chance(1, 40) { rng.usize(17, 24) } else { rng.usize(1, self.max_tasks) };
        let ag = ArrGen {
            scale: self.scale,
            allow_never: false,
            allow_prefix: false,
            allow_composite: self.allow_composite,
            allow_curve: self.allow_curves,
            max_jitter_factor: 3,
        };
        // utilisation target in percent
        let target = *rng.pick(&[30u64, 50, 70, 85, 95, 100, 110]);
        let mut tasks: Vec<Task> = vec![];
        let mut prios: Vec<u32> = (0..n as u32).collect();
        rng.shuffle(&mut prios);
        if n >= 2 && rng.chance(1, 6) {
            // occasionally two tasks share a priority level
            prios[1] = prios[0];
        }
        let common_deadline = rng.log_range(1, self.scale * 2);
        let mut twin_of_previous = false;
        for k in 0..n {
            if twin_of_previous {
                twin_of_previous = false;
                let mut t: Task = tasks[k - 1].clone();
                t.prio = prios[k];
                tasks.push(t);
                continue;
            }
            let arr = loop {
                let a = if self.allow_composite && rng.chance(1, 4) { ag.any(rng, 2) } else { ag.leaf(rng) };
                if self.exact_only && !a.is_exact() {
                    continue;
                }
                if a.components().is_empty() {
                    continue;
                }
                // occasionally a task that never releases a job (it must change nothing)
                if !self.exact_only && n >= 2 && k > 0 && rng.chance(1, 25) {
                    break Arr::Never;
                }
                break a;
            };
            let sep = mean_separation(&arr).max(1);
            // share of the utilisation target
            let share = target / n as u64;
            let cmax = (sep * share / 100).max(1).min(40);
            let wcet = match rng.range(0, 3) {
                0 => cmax,
                1 => 1,
                _ => rng.range(1, cmax),
            };
            let deadline = if self.equal_deadlines {
                common_deadline
            } else {
                match rng.range(0, 4) {
                    0 => rng.range(1, sep.max(1)),
                    1 => sep,
                    2 => rng.range(sep, 3 * sep + 1),
                    3 => common_deadline,
                    _ => wcet + rng.range(0, sep),
                }
            }
            .max(1);
            // segments
            let k_segs = rng.usize(1, (wcet as usize).min(4));
            let mut segs = vec![1u64; k_segs];
            for _ in 0..(wcet - k_segs as u64) {
                let i = rng.usize(0, k_segs - 1);
                segs[i] += 1;
            }
            let np_max = rng.range(1, wcet);
            let cost_curve = if self.cost_curves && wcet >= 2 && rng.chance(1, 5) {
                // c(1) = wcet, positive increments, sub-additive
                let mut c = crate::model::cost::gen_cumulative(rng, 4, wcet);
                let scale_up = wcet - c[0];
                for x in c.iter_mut() {
                    *x += scale_up; // keeps increments, stays sub-additive (adds the same constant to every entry)
                }
                if c.len() >= 2 { Some(c) } else { None }
            } else {
                None
            };
            tasks.push(Task { arr, wcet, deadline, prio: prios[k], segs, np_max, cost_curve });
            // occasionally the next task is an exact copy of this one (apart from its priority)
            if k + 1 < n && rng.chance(1, 12) {
                twin_of_previous = true;
            }
        }
        System { tasks }
    }
}

/// Long-run mean separation between events of a model (rough; only used to
/// pick execution times that give interesting utilisations).
pub fn mean_separation(a: &Arr) -> u64 {
    let comps = a.components();
    if comps.is_empty() {
        return 1;
    }
    // combined rate = sum of rates
    let mut rate = 0.0f64;
    for c in comps {
        let sep = match c.base {
            crate::model::arr::Base::Periodic(t) | crate::model::arr::Base::MinSep(t) => t as f64,
            crate::model::arr::Base::Dmin(v) => (*v.last().unwrap() as f64 / v.len() as f64).max(0.5),
        };
        rate += 1.0 / sep.max(0.5);
    }
    (1.0 / rate).round().max(1.0) as u64
}
