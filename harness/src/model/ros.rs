//! ROS 2 analysis problems (ECRTS'19 and RTSS'21 analyses) and the adapter
//! that calls the library.

use response_time_analysis::arrival::ArrivalBound;
use response_time_analysis::fixed_point::SearchResult;
use response_time_analysis::ros2::{self, bw, rr};
use response_time_analysis::time::{Duration, Service};
use response_time_analysis::wcet::JobCostModel;

use crate::framework::{guard, Caught};
use crate::jobj;
use crate::json::Json;
use crate::model::arr::{Arr, ArrGen};
use crate::model::cost::{gen_cost_z, Cost};
use crate::model::dem::Dem;
use crate::model::uni::Outcome;
use crate::oracle::sbf::{DefaultInverse, Sup};
use crate::rng::Rng;

#[derive(Clone, Copy, Debug, PartialEq, Eq, Hash)]
pub enum Kind {
    Timer,
    EventSource,
    PolledUnknown,
    Polled(i32),
}

impl Kind {
    pub fn lib(self) -> rr::CallbackType {
        match self {
            Kind::Timer => rr::CallbackType::Timer,
            Kind::EventSource => rr::CallbackType::EventSource,
            Kind::PolledUnknown => rr::CallbackType::PolledUnknownPrio,
            Kind::Polled(p) => rr::CallbackType::Polled(p),
        }
    }
    pub fn is_pp(self) -> bool {
        matches!(self, Kind::PolledUnknown | Kind::Polled(_))
    }
    pub fn to_json(self) -> Json {
        match self {
            Kind::Timer => Json::from("Timer"),
            Kind::EventSource => Json::from("EventSource"),
            Kind::PolledUnknown => Json::from("PolledUnknownPrio"),
            Kind::Polled(p) => jobj! {"Polled" => p},
        }
    }
    pub fn word(self) -> u64 {
        match self {
            Kind::Timer => 1,
            Kind::EventSource => 2,
            Kind::PolledUnknown => 3,
            Kind::Polled(p) => 1000 + (p as i64 + 500) as u64,
        }
    }
}

#[derive(Clone, Debug)]
pub struct CbSpec {
    pub rt_bound: u64,
    pub arr: Arr,
    pub cost: Cost,
    pub kind: Kind,
}

impl CbSpec {
    pub fn to_json(&self) -> Json {
        jobj! {"assumed_response_time_bound" => self.rt_bound, "arrivals" => self.arr.to_json(), "cost" => self.cost.to_json(), "kind" => self.kind.to_json()}
    }
}

#[derive(Clone, Debug)]
pub enum RosProblem {
    EventSource { sup: Sup, default_inverse: bool, demand: Dem, limit: u64 },
    Timer { sup: Sup, default_inverse: bool, own: Dem, interf: Dem, blocking: u64, limit: u64 },
    PollingPoint { sup: Sup, default_inverse: bool, own: Dem, interf: Dem, limit: u64 },
    /// full chain demand = prefix + last
    Chain { sup: Sup, default_inverse: bool, last: Dem, prefix: Dem, full: Dem, others: Dem, limit: u64 },
    RR { sup: Sup, default_inverse: bool, workload: Vec<CbSpec>, subchain: Vec<usize>, limit: u64 },
    BW { sup: Sup, default_inverse: bool, workload: Vec<CbSpec>, subchain: Vec<usize>, limit: u64 },
}

impl RosProblem {
    pub fn name(&self) -> &'static str {
        match self {
            RosProblem::EventSource { .. } => "ros2::rta_event_source",
            RosProblem::Timer { .. } => "ros2::rta_timer",
            RosProblem::PollingPoint { .. } => "ros2::rta_polling_point_callback",
            RosProblem::Chain { .. } => "ros2::rta_processing_chain",
            RosProblem::RR { .. } => "ros2::rr::rta_subchain",
            RosProblem::BW { .. } => "ros2::bw::rta_subchain",
        }
    }
    pub fn sup(&self) -> (Sup, bool) {
        match self {
            RosProblem::EventSource { sup, default_inverse, .. }
            | RosProblem::Timer { sup, default_inverse, .. }
            | RosProblem::PollingPoint { sup, default_inverse, .. }
            | RosProblem::Chain { sup, default_inverse, .. }
            | RosProblem::RR { sup, default_inverse, .. }
            | RosProblem::BW { sup, default_inverse, .. } => (*sup, *default_inverse),
        }
    }
    pub fn set_sup(&mut self, s: Sup) {
        match self {
            RosProblem::EventSource { sup, .. }
            | RosProblem::Timer { sup, .. }
            | RosProblem::PollingPoint { sup, .. }
            | RosProblem::Chain { sup, .. }
            | RosProblem::RR { sup, .. }
            | RosProblem::BW { sup, .. } => *sup = s,
        }
    }
    pub fn limit(&self) -> u64 {
        match self {
            RosProblem::EventSource { limit, .. }
            | RosProblem::Timer { limit, .. }
            | RosProblem::PollingPoint { limit, .. }
            | RosProblem::Chain { limit, .. }
            | RosProblem::RR { limit, .. }
            | RosProblem::BW { limit, .. } => *limit,
        }
    }
    pub fn set_limit(&mut self, l: u64) {
        match self {
            RosProblem::EventSource { limit, .. }
            | RosProblem::Timer { limit, .. }
            | RosProblem::PollingPoint { limit, .. }
            | RosProblem::Chain { limit, .. }
            | RosProblem::RR { limit, .. }
            | RosProblem::BW { limit, .. } => *limit = l,
        }
    }
    pub fn to_json(&self) -> Json {
        let (sup, di) = self.sup();
        let mut o = vec![
            ("analysis".to_string(), Json::from(self.name())),
            ("supply".to_string(), sup.to_json()),
            ("default_service_time".to_string(), Json::from(di)),
            ("limit".to_string(), Json::from(self.limit())),
        ];
        match self {
            RosProblem::EventSource { demand, .. } => o.push(("demand".into(), demand.to_json())),
            RosProblem::Timer { own, interf, blocking, .. } => {
                o.push(("own_demand".into(), own.to_json()));
                o.push(("interfering_demand".into(), interf.to_json()));
                o.push(("blocking_bound".into(), Json::from(*blocking)));
            }
            RosProblem::PollingPoint { own, interf, .. } => {
                o.push(("own_demand".into(), own.to_json()));
                o.push(("interfering_demand".into(), interf.to_json()));
            }
            RosProblem::Chain { last, prefix, full, others, .. } => {
                o.push(("chain_last_callback".into(), last.to_json()));
                o.push(("chain_prefix".into(), prefix.to_json()));
                o.push(("full_chain".into(), full.to_json()));
                o.push(("other_chains".into(), others.to_json()));
            }
            RosProblem::RR { workload, subchain, .. } | RosProblem::BW { workload, subchain, .. } => {
                o.push(("workload".into(), Json::Arr(workload.iter().map(|c| c.to_json()).collect())));
                o.push(("subchain".into(), Json::from(subchain.iter().map(|x| *x as u64).collect::<Vec<u64>>())));
            }
        }
        Json::Obj(o)
    }
    pub fn words(&self) -> Vec<u64> {
        let (sup, di) = self.sup();
        let mut w = vec![self.name().len() as u64, di as u64, self.limit()];
        w.extend(sup.words());
        match self {
            RosProblem::EventSource { demand, .. } => demand.words(&mut w),
            RosProblem::Timer { own, interf, blocking, .. } => {
                own.words(&mut w);
                interf.words(&mut w);
                w.push(*blocking);
            }
            RosProblem::PollingPoint { own, interf, .. } => {
                own.words(&mut w);
                interf.words(&mut w);
            }
            RosProblem::Chain { last, prefix, full, others, .. } => {
                last.words(&mut w);
                prefix.words(&mut w);
                full.words(&mut w);
                others.words(&mut w);
            }
            RosProblem::RR { workload, subchain, .. } | RosProblem::BW { workload, subchain, .. } => {
                for c in workload {
                    w.push(c.rt_bound);
                    c.arr.words(&mut w);
                    c.cost.words(&mut w);
                    w.push(c.kind.word());
                }
                w.extend(subchain.iter().map(|x| *x as u64));
            }
        }
        w
    }
}

fn d(x: u64) -> Duration {
    Duration::from(x)
}

pub fn build_sup(sup: Sup, default_inverse: bool) -> Box<dyn response_time_analysis::supply::SupplyBound> {
    if default_inverse {
        Box::new(DefaultInverse(sup.build()))
    } else {
        sup.build()
    }
}

pub fn call_lib(p: &RosProblem) -> SearchResult {
    let (sup, di) = p.sup();
    let supply = build_sup(sup, di);
    match p {
        RosProblem::EventSource { demand, limit, .. } => ros2::rta_event_source(&supply, &demand.build(), d(*limit)),
        RosProblem::Timer { own, interf, blocking, limit, .. } => {
            ros2::rta_timer(&supply, &own.build(), &interf.build(), Service::from(*blocking), d(*limit))
        }
        RosProblem::PollingPoint { own, interf, limit, .. } => {
            ros2::rta_polling_point_callback(&supply, &own.build(), &interf.build(), d(*limit))
        }
        RosProblem::Chain { last, prefix, full, others, limit, .. } => {
            ros2::rta_processing_chain(&supply, &last.build(), &prefix.build(), &full.build(), &others.build(), d(*limit))
        }
        RosProblem::RR { workload, subchain, limit, .. } => {
            let arrs: Vec<Box<dyn ArrivalBound>> = workload.iter().map(|c| c.arr.build()).collect();
            let costs: Vec<Box<dyn JobCostModel>> = workload.iter().map(|c| c.cost.build()).collect();
            // callbacks with identical models share the model OBJECTS (e.g. two subscriptions running the
            // same handler on one topic): they are distinct callbacks all the same
            let (ai, ci) = shared_model_indices(workload);
            let cbs: Vec<rr::Callback<dyn ArrivalBound, dyn JobCostModel>> = workload
                .iter()
                .enumerate()
                .map(|(i, c)| rr::Callback::new(d(c.rt_bound), &*arrs[ai[i]], &*costs[ci[i]], c.kind.lib()))
                .collect();
            let sc: Vec<&rr::Callback<dyn ArrivalBound, dyn JobCostModel>> = subchain.iter().map(|i| &cbs[*i]).collect();
            // in a third of the problems the same callback wrappers are first used for other analyses (every
            // callback as a singleton subchain, as in an iteration over a whole workload): the wrappers must
            // not remember anything
            if workload.len() >= 2 && limit.wrapping_add(workload.len() as u64 + subchain[0] as u64) % 3 == 0 {
                // (not observed by the in-situ monitors of C08: they watch the analysis proper)
                let io = response_time_analysis::verif_hooks::set_item_observer(None);
                let so = response_time_analysis::verif_hooks::set_search_observer(None);
                for i in 0..workload.len() {
                    let _ = rr::rta_subchain(&supply, &cbs[..], &[&cbs[i]], d(*limit));
                }
                response_time_analysis::verif_hooks::set_item_observer(io);
                response_time_analysis::verif_hooks::set_search_observer(so);
            }
            rr::rta_subchain(&supply, &cbs[..], &sc[..], d(*limit))
        }
        RosProblem::BW { workload, subchain, limit, .. } => {
            let arrs: Vec<Box<dyn ArrivalBound>> = workload.iter().map(|c| c.arr.build()).collect();
            let costs: Vec<Box<dyn JobCostModel>> = workload.iter().map(|c| c.cost.build()).collect();
            // callbacks with identical models share the model OBJECTS (e.g. two subscriptions running the
            // same handler on one topic): they are distinct callbacks all the same
            let (ai, ci) = shared_model_indices(workload);
            let cbs: Vec<bw::Callback<dyn ArrivalBound, dyn JobCostModel>> = workload
                .iter()
                .enumerate()
                .map(|(i, c)| bw::Callback::new(d(c.rt_bound), &*arrs[ai[i]], &*costs[ci[i]], c.kind.lib()))
                .collect();
            let sc: Vec<&bw::Callback<dyn ArrivalBound, dyn JobCostModel>> = subchain.iter().map(|i| &cbs[*i]).collect();
            // in a third of the problems the same callback wrappers are first used for other analyses (every
            // callback as a singleton subchain, as in an iteration over a whole workload): the wrappers must
            // not remember anything
            if workload.len() >= 2 && limit.wrapping_add(workload.len() as u64 + subchain[0] as u64) % 3 == 0 {
                // (not observed by the in-situ monitors of C08: they watch the analysis proper)
                let io = response_time_analysis::verif_hooks::set_item_observer(None);
                let so = response_time_analysis::verif_hooks::set_search_observer(None);
                for i in 0..workload.len() {
                    let _ = bw::rta_subchain(&supply, &cbs[..], &[&cbs[i]], d(*limit));
                }
                response_time_analysis::verif_hooks::set_item_observer(io);
                response_time_analysis::verif_hooks::set_search_observer(so);
            }
            bw::rta_subchain(&supply, &cbs[..], &sc[..], d(*limit))
        }
    }
}

/// For every callback the index of the first callback with an equal arrival model resp. cost model.
fn shared_model_indices(workload: &[CbSpec]) -> (Vec<usize>, Vec<usize>) {
    let ai = (0..workload.len()).map(|i| (0..=i).find(|k| workload[*k].arr == workload[i].arr).unwrap()).collect();
    let ci = (0..workload.len()).map(|i| (0..=i).find(|k| workload[*k].cost == workload[i].cost).unwrap()).collect();
    (ai, ci)
}

pub fn run_lib(p: &RosProblem) -> Result<Outcome, Caught> {
    guard(|| Outcome::from(call_lib(p)))
}

// ------------------------------------------------------------ generators

pub fn gen_sup(rng: &mut Rng) -> (Sup, bool) {
    let sup = match rng.range(0, 4) {
        0 => Sup::Dedicated,
        1 | 2 => {
            let p = rng.log_range(1, 40);
            Sup::Periodic { q: rng.range((p + 3) / 4, p), p }
        }
        _ => {
            let p = rng.log_range(1, 40);
            let dd = rng.range((p + 1) / 2, p);
            Sup::Constrained { q: rng.range((dd + 2) / 3, dd), d: dd, p }
        }
    };
    (sup, rng.chance(1, 5))
}

fn arr_gen(scale: u64, allow_never: bool) -> ArrGen {
    ArrGen { scale, allow_never, allow_prefix: false, allow_composite: true, allow_curve: true, max_jitter_factor: 2 }
}

/// A request bound whose long-run utilisation is roughly `share` percent.
fn gen_rbf(rng: &mut Rng, scale: u64, share: u64, scalar_only: bool, allow_never: bool) -> Dem {
    let g = arr_gen(scale, allow_never);
    let arr = if rng.chance(1, 4) { g.any(rng, 1) } else { g.leaf(rng) };
    let sep = crate::model::uni::mean_separation(&arr).max(1);
    let cmax = (sep * share / 100).clamp(1, 30);
    let cost = if scalar_only { Cost::Scalar(rng.range(1, cmax)) } else { gen_cost_z(rng, cmax) };
    Dem::Rbf(arr, cost)
}

fn gen_aggregate(rng: &mut Rng, scale: u64, share: u64, max_parts: usize) -> Dem {
    let n = rng.usize(0, max_parts);
    let parts: Vec<Dem> = (0..n).map(|_| gen_rbf(rng, scale, share / (n as u64).max(1), false, true)).collect();
    if rng.chance(1, 2) {
        Dem::Aggregate(parts)
    } else {
        Dem::Slice(parts)
    }
}

/// Random problem for one of the six ROS 2 analyses (used by C07, C08, C17, C19, C20).
pub fn gen_problem(rng: &mut Rng, which: Option<usize>, limit: u64) -> RosProblem {
    let (sup, default_inverse) = gen_sup(rng);
    let (q, _, p) = sup.qdp();
    // bandwidth of the supply in percent, and a utilisation target relative to it
    let bw = 100 * q / p;
    let target = bw * *rng.pick(&[30u64, 50, 70, 90, 100, 110]) / 100;
    let scale = *rng.pick(&[6u64, 15, 40]);
    match which.unwrap_or_else(|| rng.usize(0, 5)) {
        0 => {
            let demand = if rng.chance(1, 2) { gen_rbf(rng, scale, target, false, false) } else { gen_aggregate(rng, scale, target, 3) };
            RosProblem::EventSource { sup, default_inverse, demand, limit }
        }
        1 => RosProblem::Timer {
            sup,
            default_inverse,
            own: gen_rbf(rng, scale, target / 2, false, false),
            interf: gen_aggregate(rng, scale, target / 2, 3),
            blocking: if rng.chance(1, 3) { 0 } else { rng.range(0, 15) },
            limit,
        },
        2 => RosProblem::PollingPoint {
            sup,
            default_inverse,
            own: gen_rbf(rng, scale, target / 2, false, false),
            interf: gen_aggregate(rng, scale, target / 2, 4),
            limit,
        },
        3 => {
            // one arrival model for the whole chain; costs split into prefix callbacks and the last one
            let g = arr_gen(scale, false);
            let arr = g.leaf(rng);
            let sep = crate::model::uni::mean_separation(&arr).max(1);
            let cmax = (sep * target / 200).clamp(1, 20);
            let c_last = rng.range(1, cmax);
            let nprefix = rng.usize(0, 3);
            let c_prefix: Vec<u64> = (0..nprefix).map(|_| rng.range(1, cmax)).collect();
            let last = Dem::Rbf(arr.clone(), Cost::Scalar(c_last));
            // in a third of the chains every callback has its own arrival model: the source with that
            // callback's own activation jitter (the demand steps of prefix and last callback then differ)
            let own_models = !c_prefix.is_empty() && rng.chance(1, 3);
            let jit = |rng: &mut Rng, a: &Arr| -> Arr {
                let j = *rng.pick(&[0u64, 1, 3, 10, 30, 60]) * scale.max(10) / 10;
                if j == 0 { a.clone() } else { Arr::Jittered { inner: Box::new(a.clone()), j } }
            };
            let last = if own_models && rng.chance(1, 2) { Dem::Rbf(jit(rng, &arr), Cost::Scalar(c_last)) } else { last };
            let prefix = if own_models {
                let mut parts = vec![];
                for c in c_prefix.iter() {
                    let a = jit(rng, &arr);
                    parts.push(Dem::Rbf(a, Cost::Scalar(*c)));
                }
                Dem::Aggregate(parts)
            } else if rng.chance(1, 2) {
                Dem::Aggregate(c_prefix.iter().map(|c| Dem::Rbf(arr.clone(), Cost::Scalar(*c))).collect())
            } else {
                Dem::Rbf(arr.clone(), Cost::Scalar(c_prefix.iter().sum::<u64>()))
            };
            // a prefix with zero total cost must still be a valid RBF: use an empty aggregate instead
            let prefix = if c_prefix.is_empty() { Dem::Aggregate(vec![]) } else { prefix };
            let full = if !own_models && rng.chance(1, 2) {
                Dem::Rbf(arr.clone(), Cost::Scalar(c_last + c_prefix.iter().sum::<u64>()))
            } else {
                Dem::Aggregate(vec![prefix.clone(), last.clone()])
            };
            RosProblem::Chain { sup, default_inverse, last, prefix, full, others: gen_aggregate(rng, scale, target / 2, 3), limit }
        }
        x => {
            let n = rng.usize(1, 5);
            let mut workload = vec![];
            let all_kinds = rng.chance(1, 2);
            for i in 0..n {
                let g = arr_gen(scale, false);
                let arr = if rng.chance(1, 5) { g.any(rng, 1) } else { g.leaf(rng) };
                let sep = crate::model::uni::mean_separation(&arr).max(1);
                let cmax = (sep * target / 100 / n as u64).clamp(1, 25);
                let cost = if rng.chance(1, 4) { gen_cost_z(rng, cmax) } else { Cost::Scalar(rng.range(1, cmax)) };
                let kind = match rng.range(0, if all_kinds { 5 } else { 3 }) {
                    0 => Kind::Timer,
                    1 | 2 => Kind::PolledUnknown,
                    3 => Kind::Polled(rng.range(0, 3) as i32 + i as i32 % 2),
                    4 => Kind::Polled(i as i32),
                    _ => Kind::EventSource,
                };
                let rt_bound = match rng.range(0, 2) {
                    0 => cost.max_job_cost(),
                    1 => rng.range(1, 3 * scale),
                    _ => rng.range(1, 12 * scale),
                };
                workload.push(CbSpec { rt_bound, arr, cost, kind });
                // a twin: another callback of the same kind on the same models
                if i + 1 < n && rng.chance(1, 8) {
                    let twin = workload.last().unwrap().clone();
                    workload.push(twin);
                }
            }
            let n = workload.len();
            let mut idx: Vec<usize> = (0..n).collect();
            rng.shuffle(&mut idx);
            let sl = if rng.chance(1, 2) { 1 } else { rng.usize(1, n) };
            let subchain = idx[..sl].to_vec();
            if x == 4 {
                RosProblem::RR { sup, default_inverse, workload, subchain, limit }
            } else {
                RosProblem::BW { sup, default_inverse, workload, subchain, limit }
            }
        }
    }
}
