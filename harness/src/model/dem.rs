//! Request-bound descriptions (RBF / Aggregate / Slice, nested) and their
//! construction as library objects.

use response_time_analysis::demand::{self, RequestBound};
use response_time_analysis::time::Duration;

use crate::jobj;
use crate::json::Json;
use crate::model::arr::{Arr, ArrGen};
use crate::model::cost::{gen_cost, Cost};
use crate::rng::Rng;

#[derive(Clone, Debug)]
pub enum Dem {
    Rbf(Arr, Cost),
    Aggregate(Vec<Dem>),
    /// demand::Slice over boxed parts
    Slice(Vec<Dem>),
}

impl Dem {
    pub fn build(&self) -> Box<dyn RequestBound> {
        match self {
            Dem::Rbf(a, c) => Box::new(demand::RBF::new(a.build(), c.build())),
            Dem::Aggregate(p) => Box::new(demand::Aggregate::new(p.iter().map(|d| d.build()).collect::<Vec<_>>())),
            Dem::Slice(p) => {
                // Slice borrows; keep the parts alive by leaking one small Vec per case would
                // accumulate, so wrap them in an owning adapter instead.
                Box::new(OwnedSlice { parts: p.iter().map(|d| d.build()).collect() })
            }
        }
    }
    pub fn to_json(&self) -> Json {
        match self {
            Dem::Rbf(a, c) => jobj! {"RBF" => Json::Arr(vec![a.to_json(), c.to_json()])},
            Dem::Aggregate(p) => jobj! {"Aggregate" => Json::Arr(p.iter().map(|d| d.to_json()).collect())},
            Dem::Slice(p) => jobj! {"Slice" => Json::Arr(p.iter().map(|d| d.to_json()).collect())},
        }
    }
    pub fn shape(&self) -> String {
        match self {
            Dem::Rbf(a, c) => format!("RBF<{},{}>", a.shape(), c.kind()),
            Dem::Aggregate(_) => "Aggregate".to_string(),
            Dem::Slice(_) => "Slice".to_string(),
        }
    }
    pub fn words(&self, w: &mut Vec<u64>) {
        match self {
            Dem::Rbf(a, c) => {
                w.push(31);
                a.words(w);
                c.words(w);
            }
            Dem::Aggregate(p) => {
                w.extend([32, p.len() as u64]);
                p.iter().for_each(|d| d.words(w));
            }
            Dem::Slice(p) => {
                w.extend([33, p.len() as u64]);
                p.iter().for_each(|d| d.words(w));
            }
        }
    }
    pub fn arrs(&self) -> Vec<&Arr> {
        match self {
            Dem::Rbf(a, _) => vec![a],
            Dem::Aggregate(p) | Dem::Slice(p) => p.iter().flat_map(|d| d.arrs()).collect(),
        }
    }
}

/// Owns the parts and answers every query through a freshly made `demand::Slice`.
pub struct OwnedSlice {
    pub parts: Vec<Box<dyn RequestBound>>,
}

impl RequestBound for OwnedSlice {
    fn service_needed(&self, delta: Duration) -> response_time_analysis::time::Service {
        demand::Slice::of(&self.parts[..]).service_needed(delta)
    }
    fn service_needed_by_n_jobs(&self, delta: Duration, max_jobs: usize) -> response_time_analysis::time::Service {
        demand::Slice::of(&self.parts[..]).service_needed_by_n_jobs(delta, max_jobs)
    }
    fn least_wcet_in_interval(&self, delta: Duration) -> response_time_analysis::time::Service {
        demand::Slice::of(&self.parts[..]).least_wcet_in_interval(delta)
    }
    fn steps_iter<'a>(&'a self) -> Box<dyn Iterator<Item = Duration> + 'a> {
        // collect eagerly up to a generous count: the Slice is a temporary
        let s = demand::Slice::of(&self.parts[..]);
        let v: Vec<Duration> = s.steps_iter().take(1300).collect();
        Box::new(v.into_iter())
    }
    fn job_cost_iter<'a>(&'a self, delta: Duration) -> Box<dyn Iterator<Item = response_time_analysis::time::Service> + 'a> {
        let s = demand::Slice::of(&self.parts[..]);
        let v: Vec<_> = s.job_cost_iter(delta).collect();
        Box::new(v.into_iter())
    }
}

pub fn gen_dem(rng: &mut Rng, g: &ArrGen, depth: u32) -> Dem {
    if depth == 0 || rng.chance(1, 2) {
        let a = g.any(rng, 1);
        let c = gen_cost(rng, 12, false);
        return Dem::Rbf(a, c);
    }
    let n = rng.usize(1, 3);
    let parts = (0..n).map(|_| gen_dem(rng, g, depth - 1)).collect();
    if rng.chance(1, 2) {
        Dem::Aggregate(parts)
    } else {
        Dem::Slice(parts)
    }
}

