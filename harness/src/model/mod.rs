pub mod arr;
pub mod cost;
pub mod uni;
pub mod dem;
pub mod ros;
