pub mod arr;
pub mod cost;
pub mod uni;
