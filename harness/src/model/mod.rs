pub mod arr;
