//! Job-cost model descriptions and their construction as library objects.

use response_time_analysis::time::Service;
use response_time_analysis::wcet::{self, JobCostModel};

use crate::json::Json;
use crate::rng::Rng;

#[derive(Clone, Debug, PartialEq)]
pub enum Cost {
    Scalar(u64),
    Multiframe(Vec<u64>),
    /// `wcet::Curve::new(cumulative)`
    Curve(Vec<u64>),
    /// `wcet::ExtrapolatingCurve::new(Curve::new(cumulative))`
    Extrap(Vec<u64>),
    /// `wcet::Curve::from_iter(raw)`: an arbitrary vector, made monotonic by the constructor
    FromIter(Vec<u64>),
}

fn sv(v: &[u64]) -> Vec<Service> {
    v.iter().map(|x| Service::from(*x)).collect()
}

impl Cost {
    pub fn build(&self) -> Box<dyn JobCostModel> {
        match self {
            Cost::Scalar(c) => Box::new(wcet::Scalar::new(Service::from(*c))),
            Cost::Multiframe(v) => Box::new(wcet::Multiframe::new(sv(v))),
            Cost::Curve(v) => Box::new(wcet::Curve::new(sv(v))),
            Cost::Extrap(v) => Box::new(wcet::ExtrapolatingCurve::new(wcet::Curve::new(sv(v)))),
            Cost::FromIter(v) => {
                use std::iter::FromIterator;
                Box::new(wcet::Curve::from_iter(sv(v)))
            }
        }
    }
    pub fn kind(&self) -> &'static str {
        match self {
            Cost::Scalar(_) => "Scalar",
            Cost::Multiframe(_) => "Multiframe",
            Cost::Curve(_) => "wcet::Curve",
            Cost::Extrap(_) => "wcet::ExtrapolatingCurve",
            Cost::FromIter(_) => "wcet::Curve::from_iter",
        }
    }
    pub fn to_json(&self) -> Json {
        match self {
            Cost::Scalar(c) => crate::jobj! {"Scalar" => *c},
            Cost::Multiframe(v) => crate::jobj! {"Multiframe" => v},
            Cost::Curve(v) => crate::jobj! {"wcet::Curve" => v},
            Cost::Extrap(v) => crate::jobj! {"wcet::ExtrapolatingCurve" => v},
            Cost::FromIter(v) => crate::jobj! {"wcet::Curve::from_iter" => v},
        }
    }
    pub fn words(&self, out: &mut Vec<u64>) {
        match self {
            Cost::Scalar(c) => out.extend([21, *c]),
            Cost::Multiframe(v) => {
                out.extend([22, v.len() as u64]);
                out.extend(v.iter().copied());
            }
            Cost::Curve(v) => {
                out.extend([23, v.len() as u64]);
                out.extend(v.iter().copied());
            }
            Cost::Extrap(v) => {
                out.extend([24, v.len() as u64]);
                out.extend(v.iter().copied());
            }
            Cost::FromIter(v) => {
                out.extend([25, v.len() as u64]);
                out.extend(v.iter().copied());
            }
        }
    }
    /// The largest single-job cost (first cumulative value / max frame).
    pub fn max_job_cost(&self) -> u64 {
        match self {
            Cost::Scalar(c) => *c,
            Cost::Multiframe(v) => *v.iter().max().unwrap(),
            Cost::Curve(v) | Cost::Extrap(v) => v[0],
            Cost::FromIter(v) => {
                // largest increment of the running maximum (the first job costs hull[0])
                let mut hull = v.clone();
                for i in 1..hull.len() {
                    hull[i] = hull[i].max(hull[i - 1]);
                }
                (1..hull.len()).map(|i| hull[i] - hull[i - 1]).chain([hull[0]]).max().unwrap()
            }
        }
    }
}

/// A non-decreasing, sub-additive cumulative cost prefix with positive
/// increments: c(a+b) <= c(a) + c(b) inside the prefix.
pub fn gen_cumulative(rng: &mut Rng, max_len: usize, cmax: u64) -> Vec<u64> {
    gen_cumulative_opt(rng, max_len, cmax, false)
}

/// As `gen_cumulative`; with `allow_plateau` some increments may be zero (a job that adds no cost
/// to the worst case of the run before it) — still non-decreasing and sub-additive.
pub fn gen_cumulative_opt(rng: &mut Rng, max_len: usize, cmax: u64, allow_plateau: bool) -> Vec<u64> {
    let len = rng.usize(1, max_len.max(1));
    let c1 = rng.range(1, cmax.max(1));
    let mut v = vec![c1];
    for n in 2..=len {
        // upper limit from sub-additivity
        let mut ub = u64::MAX;
        for a in 1..n {
            let b = n - a;
            ub = ub.min(v[a - 1] + v[b - 1]);
        }
        let lo = v[n - 2] + 1;
        if allow_plateau && rng.chance(1, 4) {
            v.push(v[n - 2]);
            continue;
        }
        if lo > ub {
            break;
        }
        let val = rng.range(lo, ub);
        v.push(val);
    }
    v
}

pub fn gen_cost(rng: &mut Rng, cmax: u64, scalar_only: bool) -> Cost {
    gen_cost_opt(rng, cmax, scalar_only, false)
}

/// As `gen_cost`, additionally with zero-cost jobs (zero frames after the first, plateaus in cost curves).
pub fn gen_cost_z(rng: &mut Rng, cmax: u64) -> Cost {
    let z = rng.chance(1, 3);
    gen_cost_opt(rng, cmax, false, z)
}

pub fn gen_cost_opt(rng: &mut Rng, cmax: u64, scalar_only: bool, zero: bool) -> Cost {
    if scalar_only || rng.chance(1, 2) {
        return Cost::Scalar(rng.log_range(1, cmax.max(1)));
    }
    if zero && rng.chance(1, 5) {
        // an arbitrary vector with a positive first entry; dips become plateaus (zero-cost jobs)
        let n = rng.usize(1, 6);
        let mut v: Vec<u64> = (0..n).map(|_| rng.range(0, 2 * cmax.max(1))).collect();
        v[0] = rng.range(1, cmax.max(1));
        return Cost::FromIter(v);
    }
    match rng.range(0, 2) {
        0 => {
            let n = rng.usize(1, 4);
            Cost::Multiframe((0..n).map(|i| if zero && i > 0 && rng.chance(1, 3) { 0 } else { rng.range(1, cmax.max(1)) }).collect())
        }
        1 => Cost::Curve(gen_cumulative_opt(rng, 5, cmax, zero)),
        _ => Cost::Extrap(gen_cumulative_opt(rng, 5, cmax, zero)),
    }
}
