//! rta-verif: runtime monitors for response-time-analysis-rs (see /verif/DESIGN.md).

mod framework;
mod json;
mod model;
mod monitors;
mod oracle;
mod rng;
mod sim;

use framework::{Monitor, RunConfig, Tier};

fn usage() -> ! {
    eprintln!("usage: rta-verif <C01..C20> [--tier quick|thorough] [--seed N] [--cases N] [--threads N] [--max-seconds S] [--replay FILE] [--no-evidence]");
    std::process::exit(2)
}

fn main() {
    let args: Vec<String> = std::env::args().collect();
    if args.len() < 2 {
        usage();
    }
    let id = args[1].to_uppercase();
    let mut tier = match std::env::var("VERIF_TIER").ok().as_deref() {
        Some("thorough") => Tier::Thorough,
        _ => Tier::Quick,
    };
    let mut seed: u64 = std::env::var("VERIF_SEED").ok().and_then(|s| s.trim().parse().ok()).unwrap_or(1);
    let mut cases = None;
    let mut threads = std::thread::available_parallelism().map(|n| n.get()).unwrap_or(8).min(16);
    let mut max_seconds: Option<f64> = None;
    let mut replay = None;
    let mut write_evidence = true;
    let mut extra: Vec<String> = vec![];
    let mut i = 2;
    while i < args.len() {
        let need = |i: usize| -> &String { args.get(i + 1).unwrap_or_else(|| usage()) };
        match args[i].as_str() {
            "--tier" => {
                tier = match need(i).as_str() {
                    "quick" => Tier::Quick,
                    "thorough" => Tier::Thorough,
                    _ => usage(),
                };
                i += 1;
            }
            "--seed" => {
                seed = need(i).parse().unwrap_or_else(|_| usage());
                i += 1;
            }
            "--cases" => {
                cases = Some(need(i).parse().unwrap_or_else(|_| usage()));
                i += 1;
            }
            "--threads" => {
                threads = need(i).parse().unwrap_or_else(|_| usage());
                i += 1;
            }
            "--max-seconds" => {
                max_seconds = Some(need(i).parse().unwrap_or_else(|_| usage()));
                i += 1;
            }
            "--replay" => {
                replay = Some(need(i).clone());
                i += 1;
            }
            "--no-evidence" => write_evidence = false,
            other => extra.push(other.to_string()),
        }
        i += 1;
    }
    framework::install_quiet_panic_hook();
    let verif_dir = std::env::var("VERIF_DIR").unwrap_or_else(|_| "/verif".to_string());

    if let Some(code) = monitors::special(&id, &extra, tier, seed, &verif_dir, cases) {
        std::process::exit(code);
    }
    let mon: Box<dyn Monitor> = match monitors::by_id(&id) {
        Some(m) => m,
        None => {
            eprintln!("unknown property id {}", id);
            std::process::exit(2)
        }
    };
    if let Some(path) = replay {
        std::process::exit(framework::replay(mon.as_ref(), &path));
    }
    let cfg = RunConfig {
        tier,
        seed,
        cases_override: cases,
        threads,
        max_seconds: max_seconds.unwrap_or(match tier {
            Tier::Quick => 300.0,
            Tier::Thorough => 3000.0,
        }),
        verif_dir,
        write_evidence,
    };
    let s = framework::run(mon.as_ref(), &cfg);
    std::process::exit(s.exit_code);
}
