#!/usr/bin/env python3
"""Regenerates /verif/MANIFEST.json from the table below (kept in one place so the manifest is always valid)."""
import json, subprocess, os

HERE = os.path.dirname(os.path.abspath(__file__))

# id -> (technique, level text, level note, design ref)
CHECKS = {
 "C09": ("runtime monitor: differential oracle = exhaustive enumeration of budget placements (small P complete) + random concrete reservation timelines",
         "exploration: provided_service is compared for equality with the minimum over ALL budget placements for every (Q,D,P) with P<=6 (thorough 9) and every window length up to 3P+2 (a complete enumeration of that finite space), and on sampled window lengths for random (Q,D,P) up to P=300 (thorough 5000); service_time (specialised and trait default) is compared with a linear-scan inverse; concrete random placements are checked to deliver at least the promised service. Held-on-what-was-observed, not a proof for all P.",
         "trusts the harness's reservation semantics (exactly Q slots per period inside the first D slots, independent per period); for P>9 the per-period minimum is computed by counting instead of subset enumeration (cross-checked on all small cases).",
         "DESIGN.md §5 C09"),
}

NOT_YET = {}

def main():
    props = [json.loads(l) for l in open(os.path.join(HERE, "properties.jsonl"))]
    ids = [p["id"] for p in props]
    hook_commits = []
    try:
        out = subprocess.run(["git", "-C", "/repo", "log", "--format=%H %s"], capture_output=True, text=True).stdout
        for line in out.splitlines():
            h, s = line.split(" ", 1)
            if "verif-hooks" in s or "observation hooks" in s.lower():
                hook_commits.append(h)
    except Exception:
        pass
    checks = []
    na = []
    for i in ids:
        if i in CHECKS:
            tech, text, note, ref = CHECKS[i]
            checks.append({
                "property_id": i,
                "quick_cmd": f"./check.sh {i} quick",
                "thorough_cmd": f"./check.sh {i} thorough",
                "evidence_file": f"/verif/evidence/{i}.json",
                "replay_cmd_template": f"./check.sh {i} --replay {{path}}",
                "engine": "rta-verif",
                "level_claimed": {"category": "exploration", "text": text, "design_ref": ref},
                "level_note": note,
                "technique": tech,
            })
        else:
            na.append({"property_id": i, "reason": NOT_YET.get(i, "monitor not built yet in this round (planned: see DESIGN.md §5); nothing is claimed for it until its check runs silently on the unchanged tree")})
    m = {
        "version": 1,
        "setup_cmd": "./check.sh --build",
        "hooks": {
            "guard": "verif-hooks",
            "enable": "cargo feature `verif-hooks` of the response-time-analysis crate; the harness crate /verif/harness depends on /repo by path with features=[\"verif-hooks\"], so every check rebuilds /repo's working tree with hooks on",
            "baseline_off_cmd": "cd /repo && cargo test --workspace --no-fail-fast --offline",
            "source_commits": hook_commits,
            "add_only": True,
        },
        "engines": [{
            "name": "rta-verif",
            "path": "/verif/harness",
            "serves_properties": sorted(CHECKS.keys()),
            "kind_free_text": "Rust harness (std only) linked against the real library: seeded workload generators, independent discrete-time scheduler / ROS 2 executor / reservation simulators with offline log validators, brute-force equation evaluators, history monitors over hooked state; builds a `checked` profile (debug assertions + overflow checks on) and a `release` profile",
        }],
        "checks": checks,
        "notes": "Technique family: runtime monitoring. Every verdict is 'held on the executions observed'. Exit codes: 0 held, 1 VIOLATION, 2 INCONCLUSIVE (never on the unchanged tree). Known findings: /verif/known_findings.json. VERIF_SEED selects the workload; VERIF_TIER or the positional argument selects the tier.",
        "not_applicable": na,
    }
    with open(os.path.join(HERE, "MANIFEST.json"), "w") as f:
        json.dump(m, f, indent=1)
        f.write("\n")

if __name__ == "__main__":
    main()
