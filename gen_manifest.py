#!/usr/bin/env python3
"""Regenerates /verif/MANIFEST.json from the table below (kept in one place so the manifest is always valid)."""
import json, subprocess, os

HERE = os.path.dirname(os.path.abspath(__file__))

# id -> (technique, level text, level note, design ref)
SIM_NOTE = "trusts the harness's scheduler/executor/reservation semantics (DESIGN.md §2, §4) and its generative definition of admissible event sequences; only executions produced by the adversaries are observed"
EQ_NOTE = "component functions (number_arrivals, cost_of_jobs, service_needed) are tabulated from the library and used as black boxes; the evaluator is the harness's own reading of the published equations"

CHECKS = {
 "C01": ("runtime monitor: execution + independent model (discrete-time FP scheduler simulator, offline schedule validator, adversarial/random schedules)",
         "exploration: for 10,000 (thorough 150,000) random task systems (arrival models of every kind incl. recorded prefixes and nested compositions, scalar costs and cost curves, Never tasks) every Ok bound of the four FP analyses is compared with the response times of all jobs (~9 million per quick run) in validated schedules produced by critical-instant and randomised adversaries, plus a complete state-graph exploration of tiny systems every 16th case; the bound was attained by some schedule in ~99% of the cases, so optimism of even one time unit is exposed on most inputs. Held on the schedules observed.",
         SIM_NOTE, "DESIGN.md §4, §5 C01"),
 "C02": ("runtime monitor: execution + independent model (EDF scheduler simulator with adversarial tie-breaking, offline validator)",
         "exploration: as C01 for the four EDF analyses with arbitrary relative deadlines (also > period, all equal), blockers with later deadlines released one slot earlier, ties against the analysed task. Deadline-aligned schedules (release of the analysed job placed so that an interferer's deadline coincides) raise attainment to ~98% of analysable cases.",
         SIM_NOTE, "DESIGN.md §4, §5 C02"),
 "C03": ("runtime monitor: execution + independent model (FIFO scheduler simulator, offline validator)",
         "exploration: as C01 for the FIFO analysis; every task's jobs are measured; 30,000 (thorough 600,000) systems; the bound is attained in ~93% of analysable systems.",
         SIM_NOTE, "DESIGN.md §4, §5 C03"),
 "C04": ("runtime monitor: execution + independent model (ROS 2 executor + reservation simulator with polling points, offline log validator)",
         "exploration: random executors (timers, polled callbacks, chains) on Dedicated/Periodic/Constrained supply are executed under canonical worst-case budget placements and arrival phases and randomised ones; every validated execution's response times are compared with rta_timer / rta_polling_point_callback / rta_processing_chain bounds; a FIFO-on-reservation model checks rta_event_source; stand-alone callbacks carry cost curves (wcet::Curve / ExtrapolatingCurve) in half of the eligible cases and the executions respect them; twin callbacks on shared model objects; every 16th case explores ALL executions of a tiny executor (arrivals, execution times, budget placements). 12,000 (thorough 250,000) executors, ~2.4 million instances compared per quick run; bounds attained in ~45% (event source ~60%) of analysable cases.",
         SIM_NOTE + "; timer blocking bound = largest WCET of anything that is not a higher-priority timer, minus one; chained callbacks are assumed to follow their chain's source curve and executions violating that premise are discarded for the affected analysis", "DESIGN.md §4, §5 C04"),
 "C05": ("runtime monitor: execution + independent model (ROS 2 executor simulator) on self-consistent bound vectors obtained by iterating the analysis",
         "exploration: for random executors of independent timers / known-priority / unknown-priority polled callbacks the rr and bw singleton analyses are iterated upwards from the WCETs until the assumed-bound vector reproduces itself; the executor model is then run and every instance's response time compared with its bound (~4 million instances per quick run; cost curves and twin callbacks as in C04; small-scope exhaustive exploration every 16th case).",
         SIM_NOTE, "DESIGN.md §4, §5 C05"),
 "C06": ("runtime monitor: differential oracle (naive evaluator of the published equations: every offset, linear-scan fixed points) + hook H2 observing the offsets the library examined",
         "exploration: on 100,000 (thorough 2,000,000, also on the release build) random inputs per run to the nine dedicated_uniproc_rta functions the result (value, Ok/Err, error payload) must equal the exhaustive evaluation, at limits N-1, N, N+1 and a generous one (N = largest least-solution needed); the library skipped ~60% of the offsets the evaluator examined, i.e. the pruning under test was exercised; a panic or an exhausted loop budget where the evaluator has a defined answer is a violation.",
         EQ_NOTE, "DESIGN.md §5 C06"),
 "C07": ("runtime monitor: differential oracle (naive evaluator of the ROS 2 inequalities with a brute-force supply-bound function from (Q,D,P) alone)",
         "exploration: as C06 for the six ROS 2 analyses (all callback kinds, singleton and multi-callback subchains, all supply kinds incl. the trait-default service_time); thorough tier also on the release build.",
         EQ_NOTE + "; the evaluator's SBF is computed from one concrete worst-case budget placement, which C09 compares with the minimum over all placements on every run", "DESIGN.md §5 C07"),
 "C08": ("runtime monitor: direct differential oracle (linear scan) + in-situ assertion hook H1/H2 on every fixed-point search performed inside real analyses",
         "exploration: search_with_offset / search / max_response_time are compared with a linear scan on synthetic staircase workloads over all supply kinds, offsets inside the busy window and limits around the solution; in addition every search executed inside FP/EDF/FIFO analyses is checked for leastness / true divergence against the analysis' own right-hand side, and the item sequence seen by max_response_time is matched with the returned value.",
         "the supply object's provided_service is the definition of 'service guaranteed' (its exactness is C09); in-situ Err checks with limit > 3000 are sampled", "DESIGN.md §5 C08"),
 "C09": ("runtime monitor: differential oracle = exhaustive enumeration of budget placements (small P complete) + random concrete reservation timelines",
         "exploration: provided_service is compared for equality with the minimum over ALL budget placements for every (Q,D,P) with P<=6 (thorough 9) and every window length up to 3P+2 (a complete enumeration of that finite space), and on sampled window lengths for random (Q,D,P) up to P=20,000 (thorough 40,000, budget 1 in a quarter of the cases); windows and demands up to 2^60 through the period structure; reservations with periods of 2^32..2^45 against a closed form that is itself compared with the enumeration on every small case; service_time (specialised and trait default) is compared with a linear-scan inverse; concrete random placements are checked to deliver at least the promised service. Held-on-what-was-observed, not a proof for all P.",
         "trusts the harness's reservation semantics (exactly Q slots per period inside the first D slots, independent per period); for P>9 the per-period minimum is computed by counting instead of subset enumeration (cross-checked on all small cases).",
         "DESIGN.md §5 C09"),
 "C10": ("runtime monitor: execution + independent generative model of admissible event sequences; window counting oracle",
         "exploration: for random arrival-model instances (all types and compositions) dense, phased, randomised and (small parameters) exhaustively enumerated admissible sequences are generated and every event-anchored window is compared with number_arrivals; zero at zero, monotonicity, attainment and sub-additivity (Periodic/Sporadic) and jitter additivity are checked.",
         "admissible sequences as defined generatively in model/arr.rs (DESIGN.md §2)", "DESIGN.md §5 C10"),
 "C11": ("runtime monitor: differential oracle (brute-force step set of number_arrivals / service_needed on [1,H]) checked bottom-up over compositions",
         "exploration: the items pulled from steps_iter (and demand::step_offsets) are compared with the brute-force set of points of increase for random arrival and request bounds of every type; one known finding (ArrivalCurvePrefix yields 0 first, pinned by the repository's own test).",
         "finite horizon H = 3x(largest prefix distance | period)+jitter, capped at 1200; job costs >= 1", "DESIGN.md §5 C11"),
 "C12": ("runtime monitor: relational + execution oracle (trace windows vs. inferred curve; derived vs. source curve; dual of number_arrivals by scanning)",
         "exploration: from_trace curves are compared with every window of the raw trace for every prefix length; conversions are compared pointwise with their source up to 20x the covered prefix (domination) and inside it (equality); delta_min_iter is compared with the dual computed by scanning.",
         "traces/conversions whose inferred prefix ends with distance 0 (unbounded process) are outside the domain; non-domination is first triaged against sub-additivity of the source", "DESIGN.md §5 C12"),
 "C13": ("runtime monitor: history monitor over shared clones (answers vs. independent super-additive closure and vs. fresh objects) + cache-snapshot hook H4; Miri on a reduced history in the thorough tier",
         "exploration: eager extrapolation is compared with an independent closure and with admissible sequences of the original prefix; 50-300-operation query histories over 2-4 clones and live iterators of one ExtrapolatingCurve are monitored for history-independence, panics, append-only shared cache; first queries thousands of entries beyond the cache (big jumps), prefixes of 70-140 entries, queries before/after eager extension, analyses run twice on the same cached objects, steps pulled before and compared after every eager extension. One known finding (eager extrapolation can loosen the curve beyond the extended prefix).",
         "prefixes are non-decreasing, super-additive, last entry > 0", "DESIGN.md §5 C13"),
 "C14": ("runtime monitor: execution oracle (all runs of the raw cost trace) + history monitor with cache-snapshot hook H4; Miri on a reduced history in the thorough tier",
         "exploration: cost-model consistency for all models incl. from_iter curves from arbitrary (not sub-additive) vectors; from_trace curves vs. every run of consecutive jobs for every max_n; extrapolation vs. plain; ExtrapolatingCurve histories vs. independent sub-additive closure and fresh objects. One known finding (extrapolate can raise cost_of_jobs beyond the extended prefix).",
         "cumulative prefixes are non-decreasing and sub-additive with positive increments", "DESIGN.md §5 C14"),
 "C15": ("runtime monitor: differential oracle (log-space Poisson tails) + iteration-fuel hook H3 deciding termination",
         "exploration: full grid rate x epsilon x mean (up to 5000) plus random points; quantile accepted iff it is the least n with tail <= epsilon (band for ties at machine precision); mass function compared to relative 1e-9; termination decided by a loop budget derived from the oracle's answer; a second model with the same rate and another epsilon is interleaved with every query; both public constructors; a few cases per run with means of 10^6..8*10^6 against a mode-anchored oracle.",
         "epsilon in [1e-13, 0.5] (below 1e-12 only for means <= 6)", "DESIGN.md §5 C15"),
 "C16": ("runtime monitor: differential recomputation from the public component models",
         "exploration: RBF / Aggregate / Slice / boxed / nested / &, Rc wrappers over random (arrival, cost) parts (1-4 components, one composite in 25 with 17-24; job limits incl. usize::MAX): service_needed, job_cost_iter, least_wcet_in_interval, service_needed_by_n_jobs (monotone, capped, sum of n largest) and the per-component variant are recomputed from the parts.",
         "component values come from the library's component objects (C10/C14)", "DESIGN.md §5 C16"),
 "C17": ("runtime monitor: relational oracle over pairs of calls (base vs. single-parameter hardening; limit raised)",
         "exploration: ~870,000 (base, hardened) pairs per quick run over all fifteen analyses and all hardenings named by the property; supply pairs are confirmed pointwise on brute-force SBFs before use.",
         "scalar costs; the analysed task's own last segment is not a hardening", "DESIGN.md §5 C17"),
 "C18": ("runtime monitor: execution + independent model; witness search (critical-instant schedules, then random neighbourhood) validated offline",
         "exploration: for systems with exact arrival curves the critical-instant schedule's largest response time must EQUAL the FP-preemptive / FP-non-preemptive / FIFO bound; it did in 100% of analysable cases on the unchanged tree, so one unit of added pessimism is exposed.",
         SIM_NOTE + "; 'no witness found' is reported as a violation", "DESIGN.md §5 C18"),
 "C19": ("runtime monitor: relational oracle over pairs of different analyses on corresponding inputs",
         "exploration: all relations named by the property on random systems with identical limits, incl. max NP-EDF = FIFO under equal deadlines, Dedicated = Periodic(P,P) = Constrained(P,P,P) for all six ROS 2 analyses, event source = FIFO.",
         "scalar costs; event source vs FIFO only on exact arrival models", "DESIGN.md §5 C19"),
 "C20": ("runtime monitor: same seeded corpus executed by a checked build (debug assertions + overflow checks) and a release build under catch_unwind with iteration fuel (hook H3); offline comparison of the outcome logs; wall-clock watchdog = inconclusive",
         "exploration: 200,000 (thorough 3,000,000) calls into every public analysis / constructor / query with well-formed inputs incl. degenerate roles (Never everywhere, empty interferer sets, limits from 1); any panic, exhausted budget or profile-dependent outcome is a violation. One known finding (ArrivalCurvePrefix directly inside a request bound).",
         "termination = returns within 600,000 (model queries: 60,000) instrumented loop iterations, counting items pulled from harness-wrapped step iterators with increasing weight; loops over objects the library composes itself carry no countable event and are covered by the watchdog only (INCONCLUSIVE)", "DESIGN.md §5 C20"),
}

NOT_YET = {}

def main():
    props = [json.loads(l) for l in open(os.path.join(HERE, "properties.jsonl"))]
    ids = [p["id"] for p in props]
    hook_commits = []
    try:
        out = subprocess.run(["git", "-C", "/repo", "log", "--format=%H %s"], capture_output=True, text=True).stdout
        for line in out.splitlines():
            h, s = line.split(" ", 1)
            if "verif-hooks" in s or "observation hooks" in s.lower():
                hook_commits.append(h)
    except Exception:
        pass
    checks = []
    na = []
    for i in ids:
        if i in CHECKS:
            tech, text, note, ref = CHECKS[i]
            checks.append({
                "property_id": i,
                "quick_cmd": f"./check.sh {i} quick",
                "thorough_cmd": f"./check.sh {i} thorough",
                "evidence_file": f"/verif/evidence/{i}.json",
                "replay_cmd_template": f"./check.sh {i} --replay {{path}}",
                "engine": "rta-verif",
                "level_claimed": {"category": "exploration", "text": text, "design_ref": ref},
                "level_note": note,
                "technique": tech,
            })
        else:
            na.append({"property_id": i, "reason": NOT_YET.get(i, "monitor not built yet in this round (planned: see DESIGN.md §5); nothing is claimed for it until its check runs silently on the unchanged tree")})
    m = {
        "version": 1,
        "setup_cmd": "./check.sh --build",
        "hooks": {
            "guard": "verif-hooks",
            "enable": "cargo feature `verif-hooks` of the response-time-analysis crate; the harness crate /verif/harness depends on /repo by path with features=[\"verif-hooks\"], so every check rebuilds /repo's working tree with hooks on",
            "baseline_off_cmd": "cd /repo && cargo test --workspace --no-fail-fast --offline",
            "source_commits": hook_commits,
            "add_only": True,
        },
        "engines": [{
            "name": "rta-verif",
            "path": "/verif/harness",
            "serves_properties": sorted(CHECKS.keys()),
            "kind_free_text": "Rust harness (std only) linked against the real library: seeded workload generators, independent discrete-time scheduler / ROS 2 executor / reservation simulators with offline log validators, brute-force equation evaluators, history monitors over hooked state; builds a `checked` profile (debug assertions + overflow checks on) and a `release` profile",
        }],
        "checks": checks,
        "notes": "Technique family: runtime monitoring. Every verdict is 'held on the executions observed'. Exit codes: 0 held, 1 VIOLATION, 2 INCONCLUSIVE (never on the unchanged tree). Known findings: /verif/known_findings.json. VERIF_SEED selects the workload; VERIF_TIER or the positional argument selects the tier.",
        "not_applicable": na,
    }
    with open(os.path.join(HERE, "MANIFEST.json"), "w") as f:
        json.dump(m, f, indent=1)
        f.write("\n")

if __name__ == "__main__":
    main()
