#!/bin/bash
# /verif/check.sh <ID> [quick|thorough]      run the monitor for one property
# /verif/check.sh <ID> --replay <file>       re-execute one recorded case
# /verif/check.sh --build                    build the harness (both profiles) from /repo's working tree
#
# Exit 0: property held on everything observed (KNOWN-FINDING lines may be printed).
# Exit 1: a line "VIOLATION property=<id> replay=<path>" was printed.
# Exit 2: INCONCLUSIVE (harness problem, watchdog, nothing observed) — never a verdict on the property.
set -u
export CARGO_NET_OFFLINE=true
VERIF_DIR="$(cd "$(dirname "${BASH_SOURCE[0]}")" && pwd)"
export VERIF_DIR
H="$VERIF_DIR/harness"
export CARGO_TARGET_DIR="$H/target"

build() {
  # The harness has a path dependency on /repo (feature verif-hooks), so cargo
  # rebuilds the library whenever a file under /repo/src changed.
  local log
  for prof in checked release; do
    if ! log=$(cd "$H" && cargo build --offline --quiet --profile "$prof" 2>&1); then
      echo "$log" | tail -40
      echo "INCONCLUSIVE property=${1:-all} reason=harness or library does not build (profile $prof)"
      return 2
    fi
  done
  return 0
}

if [ "${1:-}" = "--build" ]; then
  build all; exit $?
fi

ID="${1:?usage: check.sh <ID> [quick|thorough] | <ID> --replay <file>}"
shift
TIER="${VERIF_TIER:-quick}"
ARGS=()
while [ $# -gt 0 ]; do
  case "$1" in
    quick|thorough) TIER="$1";;
    *) ARGS+=("$1");;
  esac
  shift
done
export VERIF_SEED="${VERIF_SEED:-1}"

build "$ID" || exit 2

BIN_C="$H/target/checked/rta-verif"
BIN_R="$H/target/release/rta-verif"
export RTA_VERIF_RELEASE_BIN="$BIN_R"
export RTA_VERIF_CHECKED_BIN="$BIN_C"

rc=0
# Properties whose thorough tier is additionally run on the release build
# (wrapping arithmetic, no debug assertions): the equation-level monitors.
if [ "$TIER" = thorough ] && [ ${#ARGS[@]} -eq 0 ]; then
  case "$ID" in
    C06|C07|C08|C11|C16|C17|C19)
      "$BIN_R" "$ID" --tier "$TIER" --seed "$VERIF_SEED"; r=$?
      [ $r -gt $rc ] && rc=$r
      ;;
  esac
fi
# Supplementary monitor (thorough tier of C13/C14): a reduced query history over the shared
# Rc<RefCell<..>> caches runs under Miri, which reports undefined behaviour in the dependency/std
# unsafe code the iterator plumbing reaches, and leaked Rc cycles.
if [ "$TIER" = thorough ] && [ ${#ARGS[@]} -eq 0 ] && { [ "$ID" = C13 ] || [ "$ID" = C14 ]; }; then
  if cargo +nightly miri --version >/dev/null 2>&1; then
    mlog="$VERIF_DIR/replays/$ID/miri-$VERIF_SEED.log"; mkdir -p "$(dirname "$mlog")"
    (cd "$H" && MIRIFLAGS="-Zmiri-disable-isolation" CARGO_TARGET_DIR="$H/target/miri-dir" \
      timeout 900 cargo +nightly miri run --offline --quiet -- "$ID-MIRI" --seed "$VERIF_SEED") >"$mlog" 2>&1; mr=$?
    if grep -q "miri-lite $ID: .* no violation" "$mlog" && [ $mr -eq 0 ]; then
      grep "miri-lite" "$mlog"
    elif [ $mr -eq 124 ]; then
      echo "NOTE property=$ID Miri run hit its wall-clock cap (no verdict from Miri)"
    elif grep -q -E "Undefined Behavior|memory leaked|VIOLATION" "$mlog"; then
      echo "VIOLATION property=$ID replay=$mlog"
      grep -m3 -E "Undefined Behavior|memory leaked|VIOLATION" "$mlog"
      rc=1
    else
      echo "NOTE property=$ID Miri could not be run here (see $mlog); no verdict from Miri"
    fi
  else
    echo "NOTE property=$ID Miri is not installed; supplementary monitor skipped"
  fi
fi
"$BIN_C" "$ID" --tier "$TIER" --seed "$VERIF_SEED" "${ARGS[@]}"; r=$?
if [ $r -eq 1 ] || [ $rc -eq 1 ]; then exit 1; fi
[ $r -gt $rc ] && rc=$r
exit $rc
