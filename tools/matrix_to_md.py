#!/usr/bin/env python3
"""tools/matrix_to_md.py: turn seeded/kill_matrix.log (+ seeded/*/meta.json) into the table of DESIGN.md §7.
Usage: matrix_to_md.py [--write]  (with --write the KILL-MATRIX block of DESIGN.md is replaced)"""
import json, os, re, sys, glob

ROOT = os.path.dirname(os.path.dirname(os.path.abspath(__file__)))
log = open(os.path.join(ROOT, "seeded", "kill_matrix.log")).read()
results = {}
for m in re.finditer(r"RESULT (\S+) fired:\[(.*?)\] inconclusive:\[(.*?)\]", log):
    results[m.group(1)] = (m.group(2).split(), m.group(3).split())
# later partial re-runs may be appended to the log; the last RESULT per change wins (dict overwrite)

rows = []
missed_own = []
survivors = []
for d in sorted(glob.glob(os.path.join(ROOT, "seeded", "C*"))):
    name = os.path.basename(d)
    if not os.path.isdir(d):
        continue
    try:
        meta = json.load(open(os.path.join(d, "meta.json")))
    except Exception:
        meta = {}
    prop = name.split("-")[0]
    files = ", ".join(os.path.basename(f) for f in meta.get("files_changed", [])) if isinstance(meta.get("files_changed"), list) else str(meta.get("files_changed", ""))
    needs = str(meta.get("what_it_needs_to_manifest", "")).replace("\n", " ").replace("|", "/")
    if len(needs) > 170:
        needs = needs[:167] + "..."
    fired, inc = results.get(name, (None, None))
    if fired is None:
        cell = "(not run yet)"
    else:
        cell = " ".join(fired) if fired else "**none**"
        if inc:
            cell += " (inconclusive: " + " ".join(inc) + ")"
        if not fired:
            survivors.append(name)
        elif prop not in fired:
            missed_own.append(name)
    rows.append(f"| `{name}` | {files} | {needs} | {cell} |")

out = []
out.append(f"{len(rows)} confirmed seeded changes; {sum(1 for n in results if results[n][0])} of the {len(results)} run so far are caught by at least one quick check.")
out.append("")
out.append("| seeded change (`seeded/<name>/`) | file(s) | needs, to manifest | quick checks that fire |")
out.append("|---|---|---|---|")
out.extend(rows)
out.append("")
if survivors:
    out.append("Not caught by any quick check: " + ", ".join(f"`{s}`" for s in survivors) + " (discussed below).")
if missed_own:
    out.append("")
    out.append("Caught, but not by the check of the property they were written against: " + ", ".join(f"`{s}`" for s in missed_own) + ".")
text = "\n".join(out)
if "--write" in sys.argv:
    p = os.path.join(ROOT, "DESIGN.md")
    s = open(p).read()
    if "KILL-MATRIX-PLACEHOLDER" in s:
        s = s.replace("KILL-MATRIX-PLACEHOLDER", "<!-- KILL-MATRIX-BEGIN -->\n" + text + "\n<!-- KILL-MATRIX-END -->")
    else:
        s = re.sub(r"<!-- KILL-MATRIX-BEGIN -->.*?<!-- KILL-MATRIX-END -->", "<!-- KILL-MATRIX-BEGIN -->\n" + text.replace("\\", "\\\\") + "\n<!-- KILL-MATRIX-END -->", s, flags=re.S)
    open(p, "w").write(s)
else:
    print(text)
