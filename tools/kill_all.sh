#!/bin/bash
# tools/kill_all.sh [log] : kill matrix over all seeded changes (sequential; uses /repo itself)
LOG=${1:-/verif/seeded/kill_matrix.log}
: > "$LOG"
for d in /verif/seeded/C*/; do
  echo "== $(basename $d)" >> "$LOG"
  /verif/tools/kill_matrix.sh "$d" >> "$LOG" 2>&1
done
echo "ALL-DONE" >> "$LOG"
