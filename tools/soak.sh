#!/bin/bash
# tools/soak.sh <tier> <seed>... : run every check at the given seeds on the current tree, report anything that is not "held"
TIER=$1; shift
for seed in "$@"; do
  for i in $(seq -w 1 20); do
    id=C$i
    out=$(VERIF_SEED=$seed /verif/check.sh $id $TIER --no-evidence 2>&1); rc=$?
    if [ $rc -ne 0 ]; then echo "SOAK seed=$seed $id rc=$rc"; echo "$out" | grep -E "VIOLATION|signature|INCONCLUSIVE" | cut -c1-300 | head -6; fi
  done
  echo "SOAK seed=$seed done"
done
