#!/bin/bash
# tools/confirm_mutant.sh <dir with patch.diff demo.rs meta.json>
# Confirms in a scratch worktree (outside /repo and /verif) that the change compiles, keeps the
# repository's own tests green, and that the demonstration fails with it and passes without it.
set -u
SRC="$(cd "$1" && pwd)"
WT=/tmp/wt/confirm.$$
export CARGO_NET_OFFLINE=true
git -C /repo worktree add -q --detach "$WT" HEAD || exit 2
trap 'git -C /repo worktree remove --force "$WT" >/dev/null 2>&1' EXIT
cd "$WT"
if ! git apply --check "$SRC/patch.diff" 2>/dev/null; then echo "CONFIRM: patch does not apply to HEAD"; exit 3; fi
git apply "$SRC/patch.diff"
if ! cargo test --offline --quiet >"$WT/.t1" 2>&1; then echo "CONFIRM: existing tests FAIL with the change"; tail -5 "$WT/.t1"; exit 4; fi
mkdir -p tests && cp "$SRC/demo.rs" tests/demo.rs
cargo test --offline --quiet --test demo >"$WT/.t2" 2>&1; with=$?
git checkout -q -- src
cargo test --offline --quiet --test demo >"$WT/.t3" 2>&1; without=$?
echo "CONFIRM: existing tests pass with change; demo with change rc=$with (want !=0); demo on HEAD rc=$without (want 0)"
if [ $with -ne 0 ] && [ $without -eq 0 ]; then echo "CONFIRM: OK"; exit 0; fi
tail -15 "$WT/.t2"; tail -15 "$WT/.t3"
exit 5
