#!/bin/bash
# tools/collect_seeds.sh : confirm every sub-agent result under /tmp/wt/*/seed_out and keep the confirmed ones
IDS="${*:-C*}"
for d in $(for i in $IDS; do ls -d /tmp/wt/$i/seed_out/*/ 2>/dev/null; done); do
  [ -f "$d/patch.diff" ] && [ -f "$d/demo.rs" ] || continue
  id=$(basename $(dirname $(dirname "$d"))); name=$(basename "$d")
  dest=/verif/seeded/$id-$name
  [ -d "$dest" ] && continue
  out=$(/verif/tools/confirm_mutant.sh "$d" 2>&1); rc=$?
  echo "$id-$name: rc=$rc $(echo "$out" | grep CONFIRM | tail -2 | tr '\n' ' ')"
  if [ $rc -eq 0 ]; then
    mkdir -p "$dest"; cp "$d/patch.diff" "$d/demo.rs" "$dest/"
    python3 - "$d/meta.json" "$dest/meta.json" "$id" "$name" <<'PY'
import json,sys
src,dst,pid,name=sys.argv[1:5]
try: m=json.load(open(src))
except Exception: m={}
m.setdefault("property",pid); m.setdefault("name",name)
m["confirmed_by"]="tools/confirm_mutant.sh in a scratch worktree of /repo HEAD: existing 80 unit + 3 doc tests pass with the change; demo.rs (as tests/demo.rs) fails with the change and passes without it"
json.dump(m,open(dst,"w"),indent=1)
PY
  fi
done
