#!/bin/bash
# tools/kill_matrix.sh <seeded dir> [property ids...]
# Applies the seeded change to /repo, runs the quick checks, records which fire, and undoes it.
set -u
D="$(cd "$1" && pwd)"; shift
OWN="$(basename "$D" | cut -d- -f1)"
if [ -n "${KILL_MATRIX_REDUCED:-}" ] || [ -f /verif/tools/.reduced_matrix ]; then
  # reduced matrix (used for the last round, for lack of time): the change's own property plus ten checks
  DEFAULT="$OWN C06 C07 C11 C12 C13 C14 C16 C17 C19 C20"
  DEFAULT="$(echo $DEFAULT | tr ' ' '\n' | awk '!seen[$0]++' | tr '\n' ' ')"
else
  DEFAULT="C01 C02 C03 C04 C05 C06 C07 C08 C09 C10 C11 C12 C13 C14 C15 C16 C17 C18 C19 C20"
fi
IDS="${*:-$DEFAULT}"
cd /repo
if [ -n "$(git status --porcelain -- src Cargo.toml)" ]; then echo "kill_matrix: /repo is not clean"; exit 2; fi
git apply "$D/patch.diff" || { echo "kill_matrix: patch does not apply"; exit 3; }
trap 'git -C /repo checkout -q -- . ' EXIT
fired=""; incon=""
for id in $IDS; do
  out=$(VERIF_SEED=${VERIF_SEED:-1} /verif/check.sh $id quick --no-evidence 2>&1); rc=$?
  if [ $rc -eq 1 ]; then fired="$fired $id"; sig=$(echo "$out" | grep -m1 "signature:" | cut -c1-160); echo "  $id FIRES $sig";
  elif [ $rc -ne 0 ]; then incon="$incon $id"; echo "  $id INCONCLUSIVE/other rc=$rc: $(echo "$out" | grep -m1 -E 'INCONCLUSIVE|error' | cut -c1-200)"; fi
done
echo "RESULT $(basename "$D") fired:[$fired ] inconclusive:[$incon ]"
