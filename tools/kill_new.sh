#!/bin/bash
# tools/kill_new.sh : kill matrix for the seeded changes that have no RESULT line in seeded/kill_matrix.log yet
LOG=/verif/seeded/kill_matrix.log
# (collect the sub-agents' results first: tools/collect_seeds.sh [ids])
for d in /verif/seeded/C*/; do
  n=$(basename $d)
  grep -q "RESULT $n " "$LOG" && continue
  echo "== $n" >> "$LOG"
  /verif/tools/kill_matrix.sh "$d" >> "$LOG" 2>&1
done
echo "NEW-DONE" >> "$LOG"
